module verif/lhsim

go 1.26.8

require (
	github.com/orbs-network/lean-helix-go v0.0.0
	github.com/orbs-network/scribe v0.1.0
)

require (
	github.com/go-playground/ansi v2.1.0+incompatible // indirect
	github.com/orbs-network/gojay v1.3.0 // indirect
	github.com/orbs-network/govnr v0.2.0 // indirect
	github.com/orbs-network/membuffers v0.3.2 // indirect
	github.com/pkg/errors v0.8.1 // indirect
)

replace github.com/orbs-network/lean-helix-go => /tmp/lhsim-inst/repo

// yieldinst rewrites a scratch copy of orbs-network/lean-helix-go so that every synchronisation point of the library
// (mutex acquisition, channel send / receive, select) is preceded by a call to verifhook.Yield("<file>:<func>:<line>:<kind>")
// and every mutex acquisition / release is bracketed by verifhook.Held(+1 / -1). The simulator installs functions
// behind those two calls: Yield is where it may park the calling goroutine (a preemption decided by the choice
// tape), Held keeps the count of library mutexes held so that nothing is ever parked while a mutex is held
// (sync.Mutex does not block durably inside a synctest bubble).
//
// The rewrite is textual: calls are inserted on the same source line in front of the statement, so line numbers in
// stack traces and the meaning of the code do not change. It is applied to the *current* working tree of /repo at
// every build of the simulator, so code that was edited (or seeded with a defect) is instrumented as it stands.
//
// usage: yieldinst <root of the copy>
package main

import (
	"bytes"
	"fmt"
	"go/ast"
	"go/parser"
	"go/token"
	"os"
	"path/filepath"
	"sort"
	"strings"
)

const hookImport = "github.com/orbs-network/lean-helix-go/verifhook"

type ins struct {
	off  int
	text string
	ord  int
}

func main() {
	if len(os.Args) != 2 {
		fmt.Fprintln(os.Stderr, "usage: yieldinst <dir>")
		os.Exit(2)
	}
	root := os.Args[1]
	files, points := 0, 0
	err := filepath.Walk(root, func(path string, info os.FileInfo, err error) error {
		if err != nil {
			return err
		}
		rel, _ := filepath.Rel(root, path)
		if info.IsDir() {
			switch rel {
			case ".git", "test", "testhelpers", "test_poc", "spec", "verifhook", "instrumentation":
				return filepath.SkipDir
			}
			if strings.HasSuffix(rel, "/test") {
				return filepath.SkipDir
			}
			return nil
		}
		base := filepath.Base(path)
		if !strings.HasSuffix(base, ".go") || strings.HasSuffix(base, "_test.go") || strings.HasPrefix(base, "verif_") {
			return nil
		}
		n, err := instrument(path, rel)
		if err != nil {
			return fmt.Errorf("%s: %v", rel, err)
		}
		if n > 0 {
			files++
			points += n
		}
		return nil
	})
	if err != nil {
		fmt.Fprintln(os.Stderr, "yieldinst:", err)
		os.Exit(1)
	}
	fmt.Printf("yieldinst: %d scheduling points in %d files\n", points, files)
}

func instrument(path, rel string) (int, error) {
	src, err := os.ReadFile(path)
	if err != nil {
		return 0, err
	}
	fset := token.NewFileSet()
	f, err := parser.ParseFile(fset, path, src, parser.ParseComments)
	if err != nil {
		return 0, err
	}
	var inserts []ins
	add := func(pos token.Pos, text string) {
		inserts = append(inserts, ins{fset.Position(pos).Offset, text, len(inserts)})
	}
	points := 0
	for _, d := range f.Decls {
		fd, ok := d.(*ast.FuncDecl)
		if !ok || fd.Body == nil {
			continue
		}
		name := fd.Name.Name
		if fd.Recv != nil && len(fd.Recv.List) == 1 {
			t := fd.Recv.List[0].Type
			if s, ok := t.(*ast.StarExpr); ok {
				t = s.X
			}
			if id, ok := t.(*ast.Ident); ok {
				name = id.Name + "." + name
			}
		}
		var visitList func(list []ast.Stmt)
		var visitStmt func(s ast.Stmt)
		visitList = func(list []ast.Stmt) {
			for _, s := range list {
				kind, lockDelta := classify(s)
				if kind != "" {
					line := fset.Position(s.Pos()).Line
					label := fmt.Sprintf("%s:%s:%d:%s", rel, name, line, kind)
					switch {
					case lockDelta > 0: // x.Lock(): yield before, count after
						add(s.Pos(), fmt.Sprintf("verifhook.Yield(%q); ", label))
						add(s.End(), "; verifhook.Held(1)")
					case lockDelta < 0: // x.Unlock(): count before the release
						if _, isDefer := s.(*ast.DeferStmt); isDefer {
							add(s.End(), "; defer verifhook.Held(-1)") // deferred calls run last-in-first-out: Held(-1) runs just before the unlock
						} else {
							add(s.Pos(), "verifhook.Held(-1); ")
						}
					default:
						add(s.Pos(), fmt.Sprintf("verifhook.Yield(%q); ", label))
					}
					points++
				}
				visitStmt(s)
			}
		}
		visitStmt = func(s ast.Stmt) {
			switch x := s.(type) {
			case *ast.BlockStmt:
				visitList(x.List)
			case *ast.IfStmt:
				visitStmt(x.Body)
				if x.Else != nil {
					visitStmt(x.Else)
				}
			case *ast.ForStmt:
				visitStmt(x.Body)
			case *ast.RangeStmt:
				visitStmt(x.Body)
			case *ast.SwitchStmt:
				visitStmt(x.Body)
			case *ast.TypeSwitchStmt:
				visitStmt(x.Body)
			case *ast.SelectStmt:
				visitStmt(x.Body)
			case *ast.CaseClause:
				visitList(x.Body)
			case *ast.CommClause:
				visitList(x.Body)
			case *ast.LabeledStmt:
				visitStmt(x.Stmt)
			default:
				// simple statement: function literals in it (goroutine bodies, timer callbacks) belong to the same
				// function for labelling purposes
				ast.Inspect(s, func(n ast.Node) bool {
					if fl, ok := n.(*ast.FuncLit); ok && fl.Body != nil {
						visitList(fl.Body.List)
						return false
					}
					return true
				})
			}
		}
		visitList(fd.Body.List)
	}
	if len(inserts) == 0 {
		return 0, nil
	}
	sort.SliceStable(inserts, func(i, j int) bool {
		if inserts[i].off != inserts[j].off {
			return inserts[i].off > inserts[j].off
		}
		return inserts[i].ord > inserts[j].ord
	})
	out := src
	for _, in := range inserts {
		out = append(out[:in.off:in.off], append([]byte(in.text), out[in.off:]...)...)
	}
	imported := false
	for _, im := range f.Imports {
		if strings.Trim(im.Path.Value, `"`) == hookImport {
			imported = true
		}
	}
	if !imported {
		// right after the package clause (same line: keeps line numbers)
		end := fset.Position(f.Name.End()).Offset
		out = append(out[:end:end], append([]byte("; import \""+hookImport+"\""), out[end:]...)...)
	}
	// must still parse
	if _, err := parser.ParseFile(token.NewFileSet(), path, out, 0); err != nil {
		return 0, fmt.Errorf("instrumented source does not parse: %v", err)
	}
	if bytes.Equal(out, src) {
		return 0, nil
	}
	return points, os.WriteFile(path, out, 0644)
}

// classify: is s a synchronisation point (looking only at s itself, not at nested statement lists or function literals)?
func classify(s ast.Stmt) (kind string, lockDelta int) {
	switch x := s.(type) {
	case *ast.SelectStmt:
		return "select", 0
	case *ast.SendStmt:
		return "send", 0
	case *ast.LabeledStmt:
		return "", 0 // the labelled statement itself is visited separately
	case *ast.DeferStmt:
		if m := lockMethod(x.Call); m == "Unlock" || m == "RUnlock" {
			return "unlock", -1
		}
		return "", 0
	case *ast.GoStmt:
		return "", 0
	case *ast.ExprStmt:
		if c, ok := x.X.(*ast.CallExpr); ok {
			switch lockMethod(c) {
			case "Lock":
				return "lock", 1
			case "RLock":
				return "rlock", 1
			case "Unlock", "RUnlock":
				return "unlock", -1
			}
		}
	}
	// a receive expression directly in this statement (not in nested lists / literals)
	recv := false
	ast.Inspect(s, func(n ast.Node) bool {
		switch y := n.(type) {
		case *ast.FuncLit:
			return false
		case *ast.BlockStmt, *ast.CaseClause, *ast.CommClause:
			return false
		case *ast.UnaryExpr:
			if y.Op == token.ARROW {
				recv = true
			}
		}
		return !recv
	})
	if recv {
		switch s.(type) {
		case *ast.ExprStmt, *ast.AssignStmt, *ast.ReturnStmt, *ast.DeclStmt:
			return "recv", 0
		}
	}
	return "", 0
}

func lockMethod(c *ast.CallExpr) string {
	if c == nil || len(c.Args) != 0 {
		return ""
	}
	sel, ok := c.Fun.(*ast.SelectorExpr)
	if !ok {
		return ""
	}
	switch sel.Sel.Name {
	case "Lock", "RLock", "Unlock", "RUnlock":
		return sel.Sel.Name
	}
	return ""
}

module verif/yieldinst

go 1.21

#!/usr/bin/env python3
"""Regenerates the committed replay files of the known findings (needed after any change of the generators,
because a replay file is a decision tape for one exact generator). For every finding: seeded search with nothing
disabled until a violation of the listed oracle class (using the listed ingredient) shows up, minimise, verify in
fresh processes, store under findings/."""
import json, os, subprocess, sys, time, glob
ROOT = os.path.dirname(os.path.dirname(os.path.abspath(__file__)))
sys.path.insert(0, ROOT)
BIN = os.path.join(ROOT, "out", "lhsim.test")
SIM = os.path.join(ROOT, "lhsim")
ENV = dict(os.environ, GOMAXPROCS="1")
subprocess.run([os.path.join(ROOT, "check"), "build"], check=True)
kf = json.load(open(os.path.join(ROOT, "known_findings.json")))
only = set(sys.argv[1:])
for f in kf["findings"]:
    if only and f["id"] not in only:
        continue
    prop, oracle, ing = f["property"], f["oracle"], f.get("match_ingredient")
    found = None
    seed = 100
    t0 = time.time()
    while found is None and time.time() - t0 < 900:
        procs = []
        for i in range(16):
            out = os.path.join(ROOT, "out", "regen-%d.json" % i)
            procs.append((out, subprocess.Popen([BIN, "-test.run", "^TestSim$", "-test.timeout", "0", "-sim.prop", prop, "-sim.seed", str(seed), "-sim.from", str(i), "-sim.stride", "16",
                                                 "-sim.budget", "30", "-sim.maxviol", "40", "-sim.out", out], cwd=SIM, env=ENV, stdout=subprocess.DEVNULL, stderr=subprocess.DEVNULL)))
        for out, p in procs:
            p.wait()
            w = json.load(open(out))
            os.remove(out)
            for v in w.get("violations") or []:
                if v["oracle"] == oracle and (not ing or ing in v["ingredients"]):
                    if found is None or len(v["decisions"]) < len(found["decisions"]):
                        found = v
        seed += 1
    if found is None:
        print("NOT FOUND", f["id"]); continue
    vpath = os.path.join(ROOT, "out", "regen-v.json"); json.dump(found, open(vpath, "w"))
    mpath = os.path.join(ROOT, f["replay"])
    if os.path.exists(mpath):
        os.remove(mpath)
    subprocess.run([BIN, "-test.run", "^TestSim$", "-test.timeout", "0", "-sim.mode", "minimize", "-sim.replay", vpath, "-sim.out", mpath, "-sim.budget", "120"], cwd=SIM, env=ENV, stdout=subprocess.DEVNULL)
    m = json.load(open(mpath))
    if m.get("ok") is False:
        json.dump(found, open(mpath, "w"), indent=1)
        m = found
    # fresh-process check
    out = os.path.join(ROOT, "out", "regen-r.json")
    subprocess.run([BIN, "-test.run", "^TestSim$", "-test.timeout", "0", "-sim.mode", "replay", "-sim.replay", mpath, "-sim.out", out], cwd=SIM, env=ENV, stdout=subprocess.DEVNULL)
    r = json.load(open(out)); os.remove(out)
    print(f["id"], "decisions", len(m["decisions"]), "reproduced", r.get("reproduced"), "same_hash", r.get("same_hash"), "ingredients", m.get("ingredients"))

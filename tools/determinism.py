#!/usr/bin/env python3
"""Determinism suite: every property's scenarios, the same run indices in several fresh processes; the event-log hashes
(which cover every delivered message's bytes) must be identical. Checks always run their workers with GOMAXPROCS=1:
two thirds of the processes here do too (several at once, so that they see different machine load), and differences
among them FAIL the suite. The remaining processes run with GOMAXPROCS 4 / 16 (real parallelism): a difference there
is reported as PARALLEL-SENSITIVE and does not fail - since main-loop preemption (H4) was added, the main loop and
the worker of one node can both log in the same window after a cancellation, and their order under real parallelism
is the Go scheduler's."""
import json, os, subprocess, sys
ROOT = os.path.dirname(os.path.dirname(os.path.abspath(__file__)))
BIN = os.path.join(ROOT, "out", "lhsim.test")
props = sys.argv[1].split(",") if len(sys.argv) > 1 else ["C01","C02","C05","C12","C14","C15","C16","C17","C18","C19"]
runs = int(sys.argv[2]) if len(sys.argv) > 2 else 200
procs = int(sys.argv[3]) if len(sys.argv) > 3 else 6
subprocess.run([os.path.join(ROOT, "check"), "build"], check=True)
bad = 0
for p in props:
    ref = None
    pbad = False
    jobs = []
    for k in range(procs):
        gmp = [1, 1, 4, 1, 1, 16][k % 6]
        out = os.path.join(ROOT, "out", "det-%s-%d.json" % (p, k))
        env = dict(os.environ, GOMAXPROCS=str(gmp))
        jobs.append((out, gmp, subprocess.Popen([BIN, "-test.run", "^TestSim$", "-test.timeout", "0", "-sim.prop", p, "-sim.seed", "77", "-sim.from", "0", "-sim.maxruns", str(runs),
                              "-sim.budget", "100000", "-sim.hashes", "-sim.out", out], cwd=os.path.join(ROOT, "lhsim"), env=env, stdout=subprocess.DEVNULL, stderr=subprocess.DEVNULL)))
    for out, gmp, j in jobs:
        j.wait()
        h = json.load(open(out))["hashes"]
        os.remove(out)
        if ref is None:
            ref = h
        elif h != ref:
            diff = [(a, b) for a, b in zip(ref, h) if a != b]
            if gmp == 1:
                print("NONDETERMINISM %s GOMAXPROCS=%d: %d of %d runs differ, first %s" % (p, gmp, len(diff), len(ref), diff[:2]))
                bad += 1
                pbad = True
            else:
                print("PARALLEL-SENSITIVE %s GOMAXPROCS=%d: %d of %d runs differ, first %s" % (p, gmp, len(diff), len(ref), diff[:2]))
    print("%s: %d runs x %d processes, GOMAXPROCS=1 processes identical=%s" % (p, runs, procs, not pbad))
sys.exit(1 if bad else 0)

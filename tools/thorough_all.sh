#!/bin/bash
# thorough sweep over all properties on a frozen snapshot of /repo
export VERIF_REPO=$VP_RUN_REPO VERIF_PROCS=${VERIF_PROCS:-5} VERIF_SEED=${VERIF_SEED:-2} VERIF_THOROUGH_BUDGET=${VERIF_THOROUGH_BUDGET:-600}
for p in C01 C02 C03 C04 C05 C07 C08 C09 C10 C11 C12 C13 C14 C15 C16 C17 C18 C19; do
  s=$(date +%s); ./check $p thorough > th_$p.out 2> th_$p.err; rc=$?
  echo "$p seed=$VERIF_SEED rc=$rc t=$(( $(date +%s)-s ))s $(grep -E 'VIOLATION|TROUBLE|^violation' th_$p.out | head -4 | tr '\n' ' ')"
done

#!/usr/bin/env python3
"""Regenerates /verif/MANIFEST.json from the table below (kept in one place so it stays valid)."""
import json, os, subprocess
ROOT = os.path.dirname(os.path.dirname(os.path.abspath(__file__)))

SIM = "deterministic simulation with fault injection"
CLAIMED = {
 "C01": ("NET (and one run in fifteen RT: slow / blocking consumers, worker-select control, preemptions): N real MainLoops + Byzantine adversary + faults; agreement invariant at every commit callback", "3 C01", SIM + ": seeded schedule/fault/adversary search, invariant at every commit"),
 "C03": ("NET (and one run in fifteen RT): at every commit callback the pair is re-validated by another correct node's real strict validator and by an independent reference predicate", "3 C03", SIM + ": cross-validation at commit"),
 "C04": ("NET (and one run in fifteen RT: validation calls that block and end in a rejection, election timeouts while a consumer call is in progress, on one or all nodes) with consumer verdicts and poison blocks; history check at commit", "3 C04", SIM + ": history oracle at commit"),
 "C07": ("NET: reference NEW_VIEW-certificate predicate evaluated on the delivered history whenever a node acts in a view above 0", "3 C07", SIM + ": reference predicate over delivered history"),
 "C08": ("NET: influence (store / send / view change) of every delivered message compared with an independent authenticity predicate", "3 C08", SIM + ": influence => predicate"),
 "C09": ("NET: every outgoing VIEW_CHANGE / NEW_VIEW of a correct node checked against what was delivered to it", "3 C09", SIM + ": send-stream history check"),
 "C10": ("NET: per-node send-stream invariants (no equivocation, phase order, view order)", "3 C10", SIM + ": send-stream invariants"),
 "C11": ("NET: unmodified messages of correct senders judged at delivery to correct peers whose state satisfies the stated precondition", "3 C11", SIM + ": effect check at delivery"),
 "C12": ("NET/RT: garbage, truncated, mutated and extreme-field inputs into running nodes; recovered-panic observer and post-attack progress", "3 C12", SIM + ": panic observer + post-attack liveness"),
 "C13": ("NET/RT: callback, registration and State() sequences of every node instance; State() snapshots taken by a concurrent consumer thread that is preempted at source-instrumented synchronisation points, judged against the state before the call and after its return", "3 C13", SIM + ": sequence invariants on the real two-goroutine runtime"),
 "C17": ("COMP: the real RawMessageFilter and state.State driven by receive/advance operation sequences (seeded long sequences, plus an exhaustive sweep of short ones) against a history checker written from the statement", "3 C17", SIM + ": component under the simulator's tape vs. executable reference checker of the recorded history"),
 "C15": ("COMP: the real context registry (state.ViewContexts) against a model under seeded For/CancelOlderThan/Shutdown sequences plus an exhaustive sweep of short sequences over a 2x3 (height, view) grid; RT: gated SPI calls on the real runtime observed against the model's watermark", "3 C15", SIM + ": component vs. reference model under the tape + gate observations on the real runtime"),
 "C19": ("COMP: the real TimerBasedElectionTrigger on the fake clock under seeded Register/Stop/advance/reader/hold interleavings (hook H3 holds fired timer goroutines; source-instrumented scheduling points preempt them in front of mutex acquisitions and channel operations); timeout function tabulated over 0..200 and boundary views", "3 C19", SIM + ": component on the simulated clock, trigger history vs. arming history"),
 "C14": ("RT: the NET world with one focus node under worker-select control (hook H1), gated SPI calls and UpdateState bursts (older / previous / equal / newer blocks); the main loop itself may be preempted at its lock points (H4) while UpdateState callers queue; every UpdateState must return by the next quiescent point (or, with a busy main loop, once it is released) and must have taken effect once the node is settled", "3 C14", SIM + ": post-quiescence state vs. sync history on the real two-goroutine runtime"),
 "C16": ("RT with cancellation of the focus node injected at a generated step (idle, mid-prepare, inside blocked SPI calls, during election / sync, real timer armed, worker with several pending events): WaitUntilShutdown returns - and not while a goroutine the library started is still inside a consumer call (slow log sink, late proposal) -, API calls with the cancelled context return, nothing fires during 72 h of simulated time, and the bubble ends with no blocked goroutine", "3 C16", SIM + ": fault enumeration over cancellation points of generated runs; shutdown / leak / after-effects oracle"),
 "C02": ("NET runs produce genuine COMMIT / PREPARE signatures, seed shares and stored proofs; a Byzantine block provider recombines them into forged certificates (subsets at the weight boundaries, duplicates, outsiders, cross-type, other view/height/instance incl. a parallel instance with the same keys, tampered seed signature, other block, mutated/truncated/random bytes) and offers them to live nodes in both modes, sequentially and overlapped (the forged certificate's validation is held inside a slow KeyManager verification while another consumer thread validates a genuine pair on the same instance); real validator nil => independent reference predicate. Honest caveat: the main deciding dimension is inputs and configurations, sampled; the schedule dimension is the overlap of validation calls", "3 C02", SIM + ": forged certificates from simulated histories vs. reference predicate"),
 "C05": ("NET in two phases: adversarial prefix (any faults, any Byzantine behaviour), then a stabilised schedule (no loss among correct nodes, messages before timers, nominal base*2^view timers, Byzantine members keep sending): bounded liveness - some correct member of every quorum-weight height commits before the views exceed vmax+n+3, and acceptors of the deciding view commit", "3 C05", SIM + ": bounded liveness after faults stop"),
 "C18": ("NET runs (one in four): every vote destination, stored proposal sender and vote-storing node in the middle of real protocol traffic must be the member at (view mod n). UNIT: committees of 4..64 (two real nodes, puppets for the rest); PREPREPARE / VIEW_CHANGE with views from the boundary classes (0..4n dense, powers of two, neighbourhoods of 2^31, 2^32, 2^63, 2^64-1) and 4n consecutive timeouts; acceptance / destination must be the member at (view mod n); no recovered panic. The 64-bit range is input sampling carried by the simulator, not schedule search", "3 C18", SIM + ": leader rotation judged by behaviour of real nodes"),
}
PLANNED = {
}
NA = {
 "C06": "pure arithmetic over (weight vector, id multiset): no schedule, clock, fault or history for a simulator to control; deciding it means enumerating/solving over inputs (DESIGN.md section 4)",
 "C20": "pure codec function (encode -> decode of field values): no schedule, clock, fault or interleaving (DESIGN.md section 4)",
}

def main():
    props = [json.loads(l)["id"] for l in open(os.path.join(ROOT, "properties.jsonl"))]
    hooks_commits = subprocess.run(["git", "-C", "/repo", "log", "--format=%H %s", "--grep=^verif hooks"], capture_output=True, text=True).stdout.strip().splitlines()
    checks = []
    for p in props:
        if p in CLAIMED:
            text, ref, tech = CLAIMED[p]
            level = "fault_enumeration" if p == "C16" else "exploration"
            checks.append({
                "property_id": p,
                "quick_cmd": "./check %s quick" % p,
                "thorough_cmd": "./check %s thorough" % p,
                "evidence_file": "/verif/evidence/%s.json" % p,
                "replay_cmd_template": "./check replay {path}",
                "engine": "lhsim",
                "level_claimed": {"category": level, "text": text + ". Sampling over seeds, not proof: a clean batch is evidence that the property holds on the explored schedules, fault sequences and adversary constructions.", "design_ref": "DESIGN.md section " + ref},
                "level_note": "Trusted base: Go runtime + testing/synctest fake clock and quiescence detection (go1.26.8); the generated wire decoders; the harness' signature oracle (unforgeability is structural); consumer-side fakes honour the SPI contract of DESIGN.md 2.8. Real code: everything under /repo.",
                "technique": tech,
            })
    na = [{"property_id": p, "reason": NA[p]} for p in props if p in NA]
    for p in props:
        if p not in CLAIMED and p not in NA:
            na.append({"property_id": p, "reason": PLANNED.get(p, "no check is registered for this property yet: the simulation scenario that decides it is not built (see DESIGN.md section 3 for the design); not claimed until it exists")})
    m = {
        "version": 1,
        "setup_cmd": "./check build",
        "hooks": {
            "guard": "verif",
            "enable": "./check build: copies /repo's working tree to a scratch directory, inserts verifhook.Yield / verifhook.Held calls at every synchronisation point (tools/yieldinst), builds go1.26.8 test -tags verif -c ./lhsim against that copy (GOTOOLCHAIN=local GOFLAGS=-mod=mod GOPROXY=off GOSUMDB=off; -modfile with replace => the copy), removes the copy",
            "baseline_off_cmd": "cd /repo && GOFLAGS=-mod=mod GOPROXY=off GOSUMDB=off go test -json -vet=off -count=1 -timeout 25m ./...",
            "source_commits": [l.split()[0] for l in hooks_commits],
            "add_only": True,
        },
        "engines": [{"name": "lhsim", "path": "/verif/lhsim", "serves_properties": [c["property_id"] for c in checks],
                     "kind_free_text": "deterministic simulator: one testing/synctest bubble per run with real lean-helix MainLoops, harness-owned scheduler / transport / keys / blocks / membership / timers, one choice tape per run (seeded PCG), ddmin minimisation, replay files; driver ./check fans out 16 worker processes"}],
        "checks": checks,
        "not_applicable": na,
        "notes": "See DESIGN.md. Known findings: known_findings.json (committed; never written at run time). Evidence files are rewritten by every check run.",
    }
    json.dump(m, open(os.path.join(ROOT, "MANIFEST.json"), "w"), indent=1)
    print("claimed:", [c["property_id"] for c in checks])
    print("not_applicable:", [x["property_id"] for x in na])

main()

#!/bin/bash
# usage: tools/verify_seeded.sh <dir with patch.diff and demo> <run-regex> <pkg> [<pkg> ...] -- <demo-file>:<dest-path> ...
# Confirms in a scratch worktree: patch applies, full suite passes with it, demo fails with it, demo passes without it.
set -u
src=$1; re=$2; shift 2
pkgs=(); while [ "$1" != "--" ]; do pkgs+=("$1"); shift; done; shift
export GOFLAGS=-mod=mod GOPROXY=off GOSUMDB=off
wt=/tmp/vw/$(basename $src)
rm -rf $wt; git -C /repo worktree prune; git -C /repo worktree add -q --detach $wt HEAD || exit 2
cleanup() { git -C /repo worktree remove --force $wt; }
trap cleanup EXIT
cd $wt
git apply $src/patch.diff || { echo "PATCH DOES NOT APPLY"; exit 2; }
go build ./... || { echo "BUILD FAILS"; exit 2; }
suite=$(timeout 600 go test -vet=off -count=1 ./... 2>&1 | grep -E "^(FAIL|---|panic)" | head -5)
[ -z "$suite" ] && echo "suite-with-patch: PASS" || { echo "suite-with-patch: FAIL"; echo "$suite"; }
for m in "$@"; do f=${m%%:*}; d=${m#*:}; mkdir -p $(dirname $wt/$d); cp $src/$f $wt/$d; done
with=$(timeout 600 go test -vet=off -count=1 -run "$re" "${pkgs[@]}" 2>&1 | grep -E "^(ok|FAIL|---)" | head -8)
echo "demo-with-patch:"; echo "$with"
git apply -R $src/patch.diff
without=$(timeout 600 go test -vet=off -count=1 -run "$re" "${pkgs[@]}" 2>&1 | grep -E "^(ok|FAIL|---)" | head -8)
echo "demo-without-patch:"; echo "$without"

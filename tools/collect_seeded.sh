#!/bin/bash
# usage: tools/collect_seeded.sh <worktree> <id>   copies patch (tracked non-test changes), demo files and notes to seeded/<id>
set -eu
wt=$1; id=$2; dst=/verif/seeded/$id
mkdir -p $dst
# new library files are not in `git diff`: mark untracked non-test .go files as intent-to-add first
git -C $wt status --porcelain --untracked-files=all | awk '$1=="??"{print $2}' | grep '\.go$' | grep -v '_test\.go$' | while read f; do git -C $wt add -N "$f"; done
git -C $wt diff -- . ':!*_test.go' > $dst/patch.diff
: > $dst/demo_location.txt
git -C $wt status --porcelain --untracked-files=all | awk '$1=="??"{print $2}' | while read f; do
  case "$f" in
    *verif_demo*|*demo*_test.go|*demo*.go) cp $wt/$f $dst/$(basename $f); echo "$(basename $f):$f" >> $dst/demo_location.txt;;
    NOTES.md) cp $wt/$f $dst/notes.md;;
  esac
done
git -C $wt diff --stat -- . | tail -3
cat $dst/demo_location.txt

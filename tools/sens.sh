#!/bin/bash
# usage: tools/sens.sh <patch.diff> <Cxx> [<Cyy> ...]   applies the patch to /repo, runs the quick checks, reverts.
set -u
patch=$(realpath $1); shift
cd /repo || exit 2
if ! git diff --quiet; then echo "repo dirty"; exit 2; fi
git apply "$patch" || { echo "patch does not apply"; exit 2; }
trap 'git -C /repo checkout -- . ; git -C /repo clean -fdq' EXIT
( export GOFLAGS=-mod=mod GOPROXY=off GOSUMDB=off; go build ./... ) || { echo "patched tree does not build"; exit 2; }
cd /verif
for p in "$@"; do
  out=$(VERIF_QUICK_BUDGET=${SENS_BUDGET:-20} ./check $p quick 2>/dev/null)
  rc=$?
  echo "== $p rc=$rc"
  echo "$out" | grep -E "^(VIOLATION|violation:|OK|KNOWN|HARNESS)" | cut -c1-260
done

#!/bin/bash
# usage: tools/sens_all.sh [<id> ...]   re-runs stored seeded changes against the checks named in their meta.json.
# Patches /repo and reverts (never run while another check uses /repo). Prints one line per (change, property).
cd ${SENS_VERIF:-/verif}
ids=("$@"); [ ${#ids[@]} -eq 0 ] && ids=($(ls seeded))
miss=0
for id in "${ids[@]}"; do
  props=$(python3 -c "import json;print(' '.join(json.load(open('seeded/$id/meta.json'))['caught_by'].keys()))")
  out=$(SENS_BUDGET=${SENS_BUDGET:-40} ${SENS_TOOL:-tools/sens.sh} seeded/$id/patch.diff $props 2>&1)
  for p in $props; do
    rc=$(echo "$out" | grep "^== $p " | sed 's/.*rc=//')
    v=$(echo "$out" | awk -v p="$p" '$0 ~ "^== "p" " {f=1;next} /^== /{f=0} f && /^violation:/ {print; exit}' | cut -c1-140)
    [ "$rc" = "1" ] && echo "CAUGHT $id $p $v" || { echo "MISSED $id $p rc=$rc"; miss=$((miss+1)); }
  done
done
echo "missed=$miss"

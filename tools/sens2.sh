#!/bin/bash
# usage: tools/sens2.sh <patch.diff> <Cxx> [<Cyy> ...]
# Like sens.sh but never touches /repo: a scratch worktree of /repo's HEAD gets the patch, the checks build against it
# (VERIF_REPO) into a second output directory (VERIF_OUT), the worktree is removed afterwards.
set -u
patch=$(realpath $1); shift
wt=/tmp/sens2/$$
mkdir -p /tmp/sens2
git -C /repo worktree add -q --detach $wt HEAD || exit 2
trap 'git -C /repo worktree remove --force '$wt'; git -C /repo worktree prune' EXIT
( cd $wt && git apply "$patch" ) || { echo "patch does not apply"; exit 2; }
( cd $wt && export GOFLAGS=-mod=mod GOPROXY=off GOSUMDB=off && go build ./... ) || { echo "patched tree does not build"; exit 2; }
cd ${SENS_VERIF:-/verif}
for p in "$@"; do
  out=$(VERIF_REPO=$wt VERIF_OUT=${SENS_OUT:-/verif/out2} VERIF_QUICK_BUDGET=${SENS_BUDGET:-20} ./check $p quick 2>/dev/null)
  rc=$?
  echo "== $p rc=$rc"
  echo "$out" | grep -E "^(VIOLATION|violation:|OK|KNOWN|HARNESS)" | cut -c1-260
done

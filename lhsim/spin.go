package lhsim

import (
	"fmt"
	"os"
	"runtime"
	"strconv"
	"strings"
	"sync/atomic"
	"syscall"
	"testing/synctest"
	"time"
)

// CPU-spin watchdog. The harness waits for quiescence with synctest.Wait; a library goroutine that loops without
// ever blocking (and without calling the SPI, where the runaway guard of the fakes would see it) keeps that wait
// from returning for ever. A real-time goroutine outside the bubble watches the process: if the harness has been
// inside one and the same quiescence wait while the process burnt spinCPULimit seconds of CPU, some goroutine of the
// code under test is spinning. That is an observation about the execution (the node is wedged), reported as a
// violation of the property being checked if that property forbids it, as harness trouble otherwise. The run cannot
// be continued (a spinning goroutine cannot be stopped), so the worker writes its result and exits.

var (
	spinWaits  atomic.Uint64 // number of quiescence waits completed
	spinInWait atomic.Bool
	spinWorld  atomic.Pointer[World]
	spinOnFire func(w *World, prop, oracle, detail string) // installed by the mode that runs bubbles
)

func stallLimit() time.Duration {
	if s := os.Getenv("SIM_STALL_S"); s != "" {
		if v, err := strconv.ParseFloat(s, 64); err == nil && v > 0 {
			return time.Duration(v * float64(time.Second))
		}
	}
	return 45 * time.Second
}

// mutexBlockedFrames names the library frames of goroutines that wait for a sync.Mutex / RWMutex.
func mutexBlockedFrames() string {
	buf := make([]byte, 1<<20)
	buf = buf[:runtime.Stack(buf, true)]
	var out []string
	for _, g := range strings.Split(string(buf), "\n\n") {
		lines := strings.Split(g, "\n")
		if len(lines) == 0 || !(strings.Contains(lines[0], "[sync.Mutex") || strings.Contains(lines[0], "[sync.RWMutex")) {
			continue
		}
		var fr []string
		for _, l := range lines[1:] {
			if strings.HasPrefix(l, "\t") || !strings.Contains(l, "lean-helix-go") {
				continue
			}
			name := l
			if i := strings.LastIndex(name, "("); i > 0 {
				name = name[:i]
			}
			if i := strings.Index(name, "lean-helix-go/"); i >= 0 {
				name = name[i+len("lean-helix-go/"):]
			}
			fr = append(fr, name)
			if len(fr) == 3 {
				break
			}
		}
		if len(fr) > 0 {
			out = append(out, strings.Join(fr, " < "))
		}
	}
	return strings.Join(out, " | ")
}

func spinCPULimit() float64 {
	if s := os.Getenv("SIM_SPIN_CPU_S"); s != "" {
		if v, err := strconv.ParseFloat(s, 64); err == nil && v > 0 {
			return v
		}
	}
	return 20
}

// simWait is the only way the harness waits for quiescence.
func simWait() {
	spinInWait.Store(true)
	synctest.Wait()
	spinInWait.Store(false)
	spinWaits.Add(1)
	if w := spinWorld.Load(); w != nil {
		w.flushEvents()
	}
}

func cpuSeconds() float64 {
	var ru syscall.Rusage
	if err := syscall.Getrusage(syscall.RUSAGE_SELF, &ru); err != nil {
		return 0
	}
	return float64(ru.Utime.Sec) + float64(ru.Utime.Usec)/1e6 + float64(ru.Stime.Sec) + float64(ru.Stime.Usec)/1e6
}

func startSpinWatchdog() {
	if os.Getenv("SIM_NO_SPIN") != "" {
		return
	}
	limit := spinCPULimit()
	go func() {
		var lastWaits uint64
		var cpuAtChange = cpuSeconds()
		var wallAtChange = time.Now()
		for {
			time.Sleep(500 * time.Millisecond)
			n := spinWaits.Load()
			if n != lastWaits || !spinInWait.Load() {
				lastWaits = n
				cpuAtChange = cpuSeconds()
				wallAtChange = time.Now()
				continue
			}
			if burnt := cpuSeconds() - cpuAtChange; burnt < limit {
				// no CPU burnt either: a goroutine of the library blocked on a mutex that is never released is not
				// "durably blocked" for the bubble, so the quiescence wait never returns and nothing runs. After a
				// long real-time silence the goroutine dump decides.
				if time.Since(wallAtChange) > stallLimit() && burnt < 2 {
					if where := mutexBlockedFrames(); where != "" {
						// look again after a pause: the same wait, the same goroutines still waiting for the mutex
						time.Sleep(5 * time.Second)
						if spinWaits.Load() != n || !spinInWait.Load() || mutexBlockedFrames() != where {
							wallAtChange = time.Now()
							continue
						}
						w := spinWorld.Load()
						if w == nil || spinOnFire == nil {
							continue
						}
						prop, oracle := w.spinVerdict()
						if oracle == "node-spins" {
							oracle = "node-deadlocked"
						}
						spinOnFire(w, prop, oracle, "after the last event nothing ran any more: a goroutine of the library waits for a mutex that is never released ("+where+")")
						os.Exit(0)
					}
					wallAtChange = time.Now() // nothing of the kind: keep waiting (the driver's own watchdog has the last word)
				}
				continue
			}
			w := spinWorld.Load()
			if w == nil || spinOnFire == nil {
				continue
			}
			where := spinningFrames()
			prop, oracle := w.spinVerdict()
			detail := fmt.Sprintf("after the last event the harness waited for the nodes to come to rest while the process burnt %.0f s of CPU: a goroutine of the library never blocks again (running: %s)", limit, where)
			spinOnFire(w, prop, oracle, detail)
			os.Exit(0)
		}
	}()
}

// spinVerdict: which property (if any, among those this run judges) forbids a node that spins for ever.
func (w *World) spinVerdict() (string, string) {
	shutting := false
	for _, n := range w.nodes {
		if n.shuttingDown {
			shutting = true
		}
	}
	switch {
	case shutting && w.checks("C16"):
		return "C16", "busy-loop-after-cancel"
	case w.checks("C12"):
		return "C12", "node-spins"
	case w.checks("C05") && w.stabilised:
		return "C05", "node-spins-after-stabilisation"
	}
	return "", ""
}

// spinningFrames names the innermost library frames of goroutines that are runnable or running.
func spinningFrames() string {
	buf := make([]byte, 1<<20)
	buf = buf[:runtime.Stack(buf, true)]
	var out []string
	for _, g := range strings.Split(string(buf), "\n\n") {
		lines := strings.Split(g, "\n")
		if len(lines) == 0 || !(strings.Contains(lines[0], "[running") || strings.Contains(lines[0], "[runnable")) {
			continue
		}
		if strings.Contains(g, "spinningFrames") {
			continue
		}
		var fr []string
		for _, l := range lines[1:] {
			if strings.HasPrefix(l, "\t") || !strings.Contains(l, "lean-helix-go") {
				continue
			}
			name := l
			if i := strings.LastIndex(name, "("); i > 0 {
				name = name[:i]
			}
			if i := strings.Index(name, "lean-helix-go/"); i >= 0 {
				name = name[i+len("lean-helix-go/"):]
			}
			fr = append(fr, name)
			if len(fr) == 3 {
				break
			}
		}
		if len(fr) > 0 {
			out = append(out, strings.Join(fr, " < "))
		}
	}
	if len(out) == 0 {
		return "no library frame found"
	}
	return strings.Join(out, " | ")
}

package lhsim

import (
	"context"
	"errors"
	"fmt"
	"sort"
	"time"

	"github.com/orbs-network/lean-helix-go/spec/types/go/protocol"
)

// NET shape: N real nodes, simulated transport, Byzantine adversary, fault injection.

func genNetConfig(ch *Chooser, prop, tier string, disabled map[string]bool) *RunConfig {
	lim := tierLimits(tier)
	cfg := &RunConfig{Prop: prop, Shape: "NET", Tier: tier, Disabled: disabled}
	cfg.N = 4 + ch.Pick("n", lim.MaxN-4+1)
	cfg.Heights = 1 + ch.Pick("heights", lim.MaxHeights)
	cfg.Outsiders = []int{cfg.N, cfg.N + 1}
	genCommittees(ch, cfg, true)
	cfg.FaultFree = ch.Pick("fault-free", 8) == 7
	nb := 0
	if !cfg.FaultFree {
		nb = ch.Pick("nbyz", 4)
	}
	genByzantine(ch, cfg, nb)
	cfg.StorageOrder = ch.Pick("st-order", 4)
	cfg.RefTimeMode = ch.Pick("ref-time", 3)
	if prop == "C12" {
		cfg.LenientNilBlock = ch.Pick("lenient-nil-block", 2) == 1
	}
	cfg.MaxSteps = lim.MaxSteps
	cfg.MaxLatencyMs = []int{1, 5, 20, 200}[ch.Pick("maxlat", 4)]
	cfg.Window = []int{1, 2, 4, 16, 1000}[ch.Pick("window", 5)]
	base := []int{50, 200, 1000, 4000}[ch.Pick("tbase", 4)]
	skew := ch.Pick("skew", 3)
	for i := 0; i < cfg.N; i++ {
		b := base
		if skew > 0 {
			b = base * (4 + ch.Pick("skew-i", 5)) / 4
		}
		cfg.TimerBaseMs = append(cfg.TimerBaseMs, b)
	}
	// in some runs every correct node runs the library's real election timer on the fake clock (bases differ by a
	// microsecond per node so that no two timers ever expire at the same instant)
	cfg.RealTimer = ch.Pick("real-timers", 6) == 5
	if !cfg.FaultFree {
		cfg.Director = []string{"", "", "split-commit", "split-prepare", "split-commit", "two-locks", "late-proposal"}[ch.Pick("director", 7)]
		cfg.DropPm = drawRate(ch, "r-drop")
		cfg.DupPm = drawRate(ch, "r-dup")
		cfg.DelayPm = drawRate(ch, "r-delay")
		cfg.CrashPm = drawRate(ch, "r-crash") / 4
		cfg.MaxDead = []int{1, 1, 2, cfg.N}[ch.Pick("maxdead", 4)]
		cfg.PartPm = drawRate(ch, "r-part") / 4
		cfg.SyncPm = drawRate(ch, "r-sync") / 2
		cfg.StaleTriggerPm = drawRate(ch, "r-stale") / 2
		cfg.TimerEarlyPm = []int{0, 0, 10, 40, 150}[ch.Pick("r-timer", 5)]
		cfg.ValidateFailPm = drawRate(ch, "r-vfail") / 2
		cfg.CommitFailPm = drawRate(ch, "r-cfail") / 2
		cfg.CommitteeFailPm = drawRate(ch, "r-cmfail") / 3
		// a failed committee lookup parks the worker in the library's retry pause while its input channels fill up:
		// several select cases are then ready at once, so every node runs under worker-select control (hook H1)
		cfg.WorkerControl = cfg.CommitteeFailPm > 0
		cfg.SendErrPermille = drawRate(ch, "r-senderr") / 4
		if len(cfg.Byz) > 0 {
			cfg.ByzPm = []int{20, 60, 150, 300}[ch.Pick("r-byz", 4)]
			cfg.Strategies = drawStrategies(ch, disabled)
		}
	}
	return cfg
}

type pendingEvent struct {
	at     time.Duration
	seq    uint64
	flight *Flight
	timer  *Node
	real   bool
	wake   bool
}

func (w *World) pendingEvents() []pendingEvent {
	var evs []pendingEvent
	for _, f := range w.flights {
		if w.hold != nil && w.hold(f) {
			continue
		}
		evs = append(evs, pendingEvent{at: f.at, seq: f.seq, flight: f})
	}
	for _, n := range w.nodes {
		if n.byz || !n.alive {
			continue
		}
		if n.trig != nil && n.trig.cur != nil && !n.trig.cur.fired {
			evs = append(evs, pendingEvent{at: n.trig.cur.at, seq: n.trig.cur.seq, timer: n})
		}
		if n.wakeAt > 0 {
			evs = append(evs, pendingEvent{at: n.wakeAt, seq: n.wakeSeq, timer: n, wake: true})
		}
		if n.realTrig != nil && n.realTrig.armed && !n.realTrig.seen && n.realTrig.expiry < time.Duration(1)<<58 {
			evs = append(evs, pendingEvent{at: n.realTrig.expiry, seq: n.realTrig.arms[len(n.realTrig.arms)-1].seq, timer: n, real: true})
		}
	}
	sort.Slice(evs, func(i, j int) bool {
		if evs[i].at != evs[j].at {
			return evs[i].at < evs[j].at
		}
		return evs[i].seq < evs[j].seq
	})
	return evs
}

func (w *World) removeFlight(f *Flight) {
	for i, x := range w.flights {
		if x == f {
			w.flights = append(w.flights[:i], w.flights[i+1:]...)
			return
		}
	}
}

func (w *World) fireTimer(n *Node, r *registration, label string) {
	if w.forceReleaseMain(n) && (n.trig == nil || n.trig.cur != r) {
		return // the released loops re-registered: this registration is no longer the armed one
	}
	r.fired = true
	w.ev("%s n%d h%d v%d", label, n.idx, r.h, r.v)
	tr := r.trigger()
	ch, ctx := n.trig.ch, n.ctx
	w.noteTrigger(n, r.h, r.v)
	w.onTimerFired(n, r)
	go func() {
		select {
		case ch <- tr:
		case <-ctx.Done():
		}
	}()
	w.stimNode = n
	w.quiesce()
	w.stimNode = nil
}

// realTimerBefore: advancing the clock to t would let a real timer fire on the way.
func (w *World) realTimerBefore(t time.Duration) bool {
	for _, n := range w.nodes {
		if n.alive && n.realTrig != nil && n.realTrig.armed && !n.realTrig.seen && n.realTrig.expiry <= t {
			return true
		}
	}
	return false
}

func (w *World) genesis(n *Node) {
	w.noteUpdateState(n, 0, true)
	lh, ctx := n.lh, n.ctx
	go w.guardAPI("UpdateState", func() { _ = lh.UpdateState(ctx, nil, nil) })
	w.quiesce()
}

func (w *World) netDone() bool {
	if w.timeUp {
		return true
	}
	for _, n := range w.nodes {
		if n.byz || !n.alive {
			continue
		}
		if n.view() > 24 {
			w.probe("view-cap")
			return true
		}
	}
	for _, n := range w.nodes {
		if n.byz || !n.alive {
			continue
		}
		if n.height() <= uint64(w.cfg.Heights) {
			return false
		}
	}
	return true
}

func (w *World) action(name string) {
	w.stats.action(name)
	w.stepActs = append(w.stepActs, name)
}

// RunNet is the NET scenario.
func RunNet(w *World) {
	w.setup()
	for _, n := range w.honest() {
		n.gatePolicy = w.failOnlyGatePolicy(n)
		w.startNode(n)
	}
	w.quiesce()
	for _, i := range w.ch.Perm("genesis-order", len(w.honest())) {
		w.genesis(w.honest()[i])
	}
	cfg := w.cfg
	for w.step = 0; w.step < cfg.MaxSteps && w.viol == nil && !w.tainted; w.step++ {
		w.sampleState()
		w.checkQuiescentInvariants()
		if w.viol != nil || w.timeUp || (w.netDone() && cfg.StabiliseAt == 0) {
			break
		}
		if cfg.StabiliseAt > 0 && w.step >= cfg.StabiliseAt && !w.stabilised {
			w.stabilise()
		}
		if w.stabilised {
			if !w.stableStep() {
				break
			}
			continue
		}
		w.directorStep()
		if !w.netStep() {
			break
		}
	}
	w.finalChecks()
}

// netStep performs one scheduler action of the adversarial phase. Returns false when nothing is enabled.
func (w *World) netStep() bool {
	cfg := w.cfg
	a := w.ch.Pick("act", 1000)
	top := 1000
	band := func(pm int) bool {
		if pm <= 0 {
			return false
		}
		lo := top - pm
		hit := a >= lo && a < top
		top = lo
		return hit
	}
	switch {
	case band(cfg.ProofPm):
		switch w.ch.Pick("proof-genuine", 6) {
		case 4:
			if w.offerGenuineProof() {
				return true
			}
		case 5:
			if w.syntheticProofStep() {
				return true
			}
		default:
			if w.forgeProofStep() {
				return true
			}
		}
	case band(cfg.ByzPm):
		if w.adversaryStep() {
			return true
		}
	case band(cfg.CrashPm):
		if w.crashOrRestart() {
			return true
		}
	case band(cfg.PartPm):
		if w.partitionToggle() {
			return true
		}
	case band(cfg.SyncPm):
		if w.syncStep() {
			return true
		}
	case band(cfg.StaleTriggerPm):
		if w.staleTrigger() {
			return true
		}
	}
	evs := w.pendingEvents()
	if len(evs) == 0 {
		// nothing in flight and no timer armed: only external stimuli can move the system
		if w.syncStep() {
			return true
		}
		return false
	}
	var msgs, timers []pendingEvent
	for _, e := range evs {
		if e.timer != nil {
			timers = append(timers, e)
		} else {
			msgs = append(msgs, e)
		}
	}
	var e pendingEvent
	switch {
	case len(msgs) == 0:
		e = timers[0] // natural expiry: the clock jumps to the earliest timer
	case len(timers) > 0 && w.ch.Chance("timer-early", cfg.TimerEarlyPm):
		e = timers[w.ch.Pick("timer-which", len(timers))]
		if e.real || e.wake {
			e = timers[0] // real timers and timed waits cannot fire early: the clock moves to the earliest expiry instead
		}
		if !e.real && !e.wake {
			w.stats.Fault("timer-early")
		}
	default:
		k := len(msgs)
		if k > cfg.Window {
			k = cfg.Window
		}
		e = msgs[w.ch.Pick("ev", k)]
		// a timer whose nominal expiry precedes this delivery fires first (time order)
		if len(timers) > 0 && timers[0].at <= e.at && !cfg.NoNaturalTimers {
			e = timers[0]
		}
	}
	if e.timer != nil {
		if e.real || e.wake {
			w.fireAny(&e)
			return true
		}
		if e.at > w.now && len(msgs) == 0 && !w.realTimerBefore(e.at) {
			w.advanceTo(e.at)
		}
		w.fireAny(&e)
		return true
	}
	f := e.flight
	// message faults
	m := w.ch.Pick("mf", 1000)
	mtop := 1000
	mband := func(pm int) bool {
		if pm <= 0 {
			return false
		}
		lo := mtop - pm
		hit := m >= lo && m < mtop
		mtop = lo
		return hit
	}
	switch {
	case mband(cfg.DropPm):
		w.removeFlight(f)
		w.stats.Fault("drop")
		w.action("drop")
		w.ev("drop -> n%d #%s", f.to, shortHash(f.raw.Content))
		return true
	case mband(cfg.DelayPm):
		f.at = w.now + time.Duration(1+w.ch.Pick("delay", 50))*time.Duration(cfg.MaxLatencyMs)*time.Millisecond
		w.seq++
		f.seq = w.seq
		w.stats.Fault("delay")
		w.action("delay")
		w.ev("delay -> n%d #%s", f.to, shortHash(f.raw.Content))
		return true
	case mband(cfg.DupPm):
		d := *f
		d.dupOf = true
		d.at = 0
		w.enqueue(&d)
		w.stats.Fault("dup")
	}
	w.removeFlight(f)
	if w.blocked[[2]int{f.from, f.to}] {
		w.stats.Fault("partition-drop")
		w.action("part-drop")
		w.ev("partition-drop n%d -> n%d", f.from, f.to)
		return true
	}
	if !w.nodes[f.to].alive {
		w.action("dead-drop")
		return true
	}
	if f.at > w.now && !w.realTimerBefore(f.at) {
		w.advanceTo(f.at)
	}
	w.action("deliver")
	w.deliver(f)
	return true
}

// ---------------------------------------------------------------------------------------------
// Crash / restart. The only durable state is the consumer's block store.

func (w *World) byzWeightAt(h uint64, extra *Node) (uint64, uint64) {
	c := w.Committee(h)
	_, f, _ := thresholds(c)
	var b uint64
	for _, m := range c {
		idx := w.keys.IdxOf(m.Id)
		n := w.nodes[idx]
		if n.byz || n.amnesiac[h] || n == extra {
			b += uint64(m.Weight)
		}
	}
	return b, f
}

func (n *Node) participatedAt(h uint64) bool {
	for _, s := range n.obs.sends {
		if s.msg != nil && s.msg.Height() == h {
			return true
		}
	}
	return false
}

func (w *World) crashOrRestart() bool {
	hs := w.honest()
	n := hs[w.ch.Pick("crash-node", len(hs))]
	var dead []*Node
	for _, x := range hs {
		if !x.alive {
			dead = append(dead, x)
		}
	}
	if len(dead) > 0 && (len(dead) >= w.cfg.MaxDead || w.ch.Pick("restart?", 3) > 0) {
		return w.restart(dead[w.ch.Pick("restart-node", len(dead))])
	}
	if n.alive {
		h := n.height()
		w.stopNode(n)
		w.quiesce()
		w.stats.Fault("crash")
		w.action("crash")
		w.ev("crash n%d at h%d", n.idx, h)
		return true
	}
	return w.restart(n)
}

func (w *World) restart(n *Node) bool {
	top, sb := n.lastStored()
	reenter := top + 1
	if n.participatedAt(reenter) {
		b, f := w.byzWeightAt(reenter, n)
		if b > f {
			// restarting here would exceed the fault budget of that height; try to sync it forward first
			if !w.feedFromPeers(n) {
				return false
			}
			top, sb = n.lastStored()
			reenter = top + 1
			if n.participatedAt(reenter) {
				b, f = w.byzWeightAt(reenter, n)
				if b > f {
					return false
				}
			}
		}
		if n.participatedAt(reenter) {
			n.amnesiac[reenter] = true
			w.probe("amnesiac-restart")
		}
	}
	w.startNode(n)
	w.quiesce()
	w.stats.Fault("restart")
	w.action("restart")
	lh, ctx := n.lh, n.ctx
	if sb == nil {
		w.noteUpdateState(n, 0, true)
		go w.guardAPI("UpdateState", func() { _ = lh.UpdateState(ctx, nil, nil) })
	} else {
		w.noteUpdateState(n, sb.block.H, true)
		blk, proof := sb.block, sb.proof
		go w.guardAPI("UpdateState", func() { _ = lh.UpdateState(ctx, blk, proof) })
	}
	w.quiesce()
	return true
}

// feedFromPeers copies newer committed blocks from other correct nodes' stores into n's store
// (the consumer's block sync while the node is down), validating each with the node that holds it.
func (w *World) feedFromPeers(n *Node) bool {
	top, _ := n.lastStored()
	moved := false
	for {
		var src *StoredBlock
		for _, p := range w.honest() {
			if sb, ok := p.store[top+1]; ok {
				src = sb
				break
			}
		}
		if src == nil {
			break
		}
		n.store[top+1] = src
		top++
		moved = true
	}
	return moved
}

func (w *World) partitionToggle() bool {
	if len(w.blocked) > 0 {
		w.blocked = map[[2]int]bool{}
		w.stats.Fault("heal")
		w.ev("heal")
		if w.ch.Pick("heal", 4) > 0 {
			w.action("heal")
			return true
		}
	}
	hs := w.honest()
	// split the members into two sides
	side := map[int]bool{}
	for _, n := range w.nodes {
		if w.ch.Pick("side", 2) == 1 {
			side[n.idx] = true
		}
	}
	oneway := w.ch.Pick("oneway", 3) == 2
	cnt := 0
	for _, a := range hs {
		for _, b := range w.nodes {
			if a.idx != b.idx && side[a.idx] != side[b.idx] {
				w.blocked[[2]int{a.idx, b.idx}] = true
				cnt++
				if !oneway {
					w.blocked[[2]int{b.idx, a.idx}] = true
				}
			}
		}
	}
	if cnt == 0 {
		return false
	}
	w.stats.Fault("partition")
	w.action("partition")
	w.ev("partition %v oneway=%v", side, oneway)
	return true
}

// syncStep: the consumer of a lagging node obtains a newer block with its proof from a peer's store,
// validates it with ValidateBlockConsensus and calls UpdateState.
func (w *World) syncStep() bool {
	var cands []*Node
	for _, n := range w.honest() {
		if n.alive {
			cands = append(cands, n)
		}
	}
	if len(cands) == 0 {
		return false
	}
	n := cands[w.ch.Pick("sync-node", len(cands))]
	h := n.height()
	// find the newest block some correct peer stored at height >= h-? (older ones exercise the stale path)
	var best *StoredBlock
	var bestH uint64
	for _, p := range w.honest() {
		if top, sb := p.lastStored(); sb != nil && top > bestH {
			best, bestH = sb, top
		}
	}
	if best == nil {
		return false
	}
	mode := w.ch.Pick("sync-mode", 4) // 0 newest, 1 exactly current height, 2 older, 3 newest again
	target := best
	th := bestH
	pick := func(hh uint64) bool {
		for _, p := range w.honest() {
			if sb, ok := p.store[hh]; ok {
				target, th = sb, hh
				return true
			}
		}
		return false
	}
	switch mode {
	case 1:
		if h >= 1 {
			pick(h)
		}
	case 2:
		if h >= 2 {
			pick(h - 1 - uint64(w.ch.Pick("sync-older", int(minU(h-1, 3)))))
		}
	}
	return w.syncTo(n, target, th, "sync")
}

func minU(a, b uint64) uint64 {
	if a < b {
		return a
	}
	return b
}

func (w *World) prevOf(th uint64) (*Block, []byte) {
	if th <= 1 {
		return nil, nil
	}
	for _, p := range w.honest() {
		if sb, ok := p.store[th-1]; ok {
			return sb.block, sb.proof
		}
	}
	return nil, nil
}

func (w *World) syncTo(n *Node, target *StoredBlock, th uint64, label string) bool {
	w.action(label)
	w.stats.Fault("sync")
	before := n.hv()
	prevB, prevP := w.prevOf(th)
	if th > 1 && prevB == nil {
		return false
	}
	var pb interface{ Height() uint64 }
	_ = pb
	var err error
	func() {
		defer func() {
			if r := recover(); r != nil {
				w.violate("C12", "validate-panic", "ValidateBlockConsensus panicked on a genuine proof: %v", r)
			}
		}()
		if prevB == nil {
			err = n.lh.ValidateBlockConsensus(context.Background(), target.block, target.proof, nil, prevP, false)
		} else {
			err = n.lh.ValidateBlockConsensus(context.Background(), target.block, target.proof, prevB, prevP, false)
		}
	}()
	w.ev("sync n%d (at h%d v%d) to block h%d %s validate-err=%v", n.idx, before.h, before.v, th, target.block, err)
	if err != nil {
		w.onGenuineProofRejected(n, target, th, err)
		return true
	}
	if _, ok := n.store[th]; !ok {
		n.store[th] = target
	}
	w.preSync(n, th)
	w.noteUpdateState(n, th, false)
	idx := len(n.updates) - 1
	lh, ctx := n.lh, n.ctx
	blk, proof := target.block, target.proof
	done := make(chan error, 1)
	release := func() {}
	if w.cfg.Shape == "RT" && w.ch.Pick("sync-call-ctx", 3) == 2 {
		// the caller uses a context of its own for this one call and releases it as soon as the call has returned
		// (defer cancel()): what UpdateState promised must not depend on that context any more
		ctx, release = context.WithCancel(ctx)
		w.probe("updatestate-with-call-context")
	}
	go func() {
		e := errors.New("panicked")
		w.guardAPI("UpdateState", func() { e = lh.UpdateState(ctx, blk, proof) })
		release()
		done <- e
	}()
	w.stimNode = n
	w.quiesce()
	w.stimNode = nil
	if n.mainParked != nil || len(n.pendingSyncs) > 0 {
		// the main loop is busy: the call may legitimately wait for it (callers are served first come, first served);
		// it is picked up again when it returns
		n.pendingSyncs = append(n.pendingSyncs, &pendingSync{done: done, idx: idx, th: th, before: before, epoch: n.epoch})
		n.syncPre = nil
		w.probe("updatestate-while-main-loop-busy")
		w.pollPendingSyncs(n)
		return true
	}
	select {
	case e := <-done:
		w.postSync(n, th, before, e)
	default:
		w.violate("C14", "updatestate-blocked", "UpdateState(block h%d) on n%d has not returned at the next quiescent point while the loops run", th, n.idx)
	}
	return true
}

func (w *World) staleTrigger() bool {
	var cands []*Node
	for _, n := range w.honest() {
		if n.alive && n.trig != nil && len(n.trig.past) > 0 {
			cands = append(cands, n)
		}
	}
	if len(cands) == 0 {
		return false
	}
	n := cands[w.ch.Pick("stale-node", len(cands))]
	r := n.trig.past[w.ch.Pick("stale-which", len(n.trig.past))]
	if r.staleN >= 2 {
		return false
	}
	r.staleN++
	w.stats.Fault("stale-trigger")
	w.action("stale-trigger")
	w.fireTimer(n, &registration{h: r.h, v: r.v, cb: r.cb, stale: true}, "stale-trigger")
	return true
}

func (w *World) describeConfig() string {
	c := w.cfg
	s := fmt.Sprintf("N=%d heights=%d byz=%v window=%d lat=%dms", c.N, c.Heights, c.Byz, c.Window, c.MaxLatencyMs)
	for h := uint64(1); h <= uint64(c.Heights+1); h++ {
		s += fmt.Sprintf(" C%d=%v", h, c.Committees[h])
	}
	return s
}

// ---------------------------------------------------------------------------------------------
// Directors: targeted fault placement. A director only withholds messages and fires timers early, i.e. it
// composes legal asynchrony (loss, delay, timeouts) so that the rare interesting states are reached often:
// one node decided while the others are locked and changing view, or only part of the committee locked.

type director struct {
	state  int
	h      uint64
	lucky  int // the node that is allowed to make progress
	kind   Kind
	budget int
	held   func(f *Flight) bool
	view1  int64
	view2  int64
	wait   int
}

func (w *World) directorStep() {
	if w.cfg.Director == "" {
		return
	}
	if w.cfg.Director == "two-locks" {
		w.twoLocksStep()
		return
	}
	if w.cfg.Director == "late-proposal" {
		w.lateProposalStep()
		return
	}
	d := w.dir
	if d == nil {
		d = &director{h: uint64(1 + w.ch.Pick("dir-h", w.cfg.Heights)), budget: 400}
		d.kind = KC
		if w.cfg.Director == "split-prepare" {
			d.kind = KP
		}
		// the lucky node is a correct member of that height's committee
		var cands []int
		for _, idx := range w.committeeIdx(d.h) {
			if !w.isByz(idx) {
				cands = append(cands, idx)
			}
		}
		if len(cands) == 0 {
			w.cfg.Director = ""
			return
		}
		d.lucky = cands[w.ch.Pick("dir-lucky", len(cands))]
		w.dir = d
		d.held = func(f *Flight) bool {
			if f.to == d.lucky || f.tag != "" {
				return false
			}
			m := Decode(f.raw)
			return m != nil && m.Kind == d.kind && m.Height() == d.h
		}
		w.hold = func(f *Flight) bool { return d.state == 0 && d.held(f) }
		w.ev("director %s h%d lucky n%d", w.cfg.Director, d.h, d.lucky)
	}
	if d.state != 0 {
		return
	}
	d.budget--
	ln := w.nodes[d.lucky]
	done := false
	switch d.kind {
	case KC:
		for _, c := range ln.obs.commits {
			if c.height == d.h {
				done = true
			}
		}
	case KP:
		for _, s := range ln.obs.sends {
			if s.msg != nil && s.msg.Kind == KC && s.msg.Ref.H == d.h {
				done = true // the lucky node is prepared (it sent COMMIT)
			}
		}
	}
	if !done && d.budget > 0 {
		return
	}
	d.state = 1
	if !done {
		w.hold = nil
		return
	}
	w.probe("director-split-reached")
	// the withheld messages are lost, and every other correct node still deciding that height times out
	keep := w.flights[:0]
	for _, f := range w.flights {
		if d.held(f) {
			w.stats.Fault("drop")
			continue
		}
		keep = append(keep, f)
	}
	w.flights = keep
	w.hold = nil
	for _, n := range w.honest() {
		if n.idx == d.lucky || !n.alive || n.height() != d.h || n.trig == nil || n.trig.cur == nil || n.trig.cur.fired {
			continue
		}
		w.stats.Fault("timer-early")
		w.fireTimer(n, n.trig.cur, "timer-fire(director)")
	}
}


// two-locks director: at one height, the PREPAREs of the first proposed view are all lost (a certificate for that
// block exists only in the hands of whoever saw the traffic, nobody is locked), everybody times out; in the next
// view that gets a proposal the COMMITs reach only one lucky node, which decides, and the others time out again.
// What remains is the classical state in which an old, never-decided certificate competes with the decided lock.
// late-proposal: the view-0 leader of the chosen height is Byzantine. The proposals addressed to one correct node are
// withheld (a slow link) until that node holds PREPAREs of the other members, of weight above f, for one of the
// leader's proposals; then the leader sends that node the SAME signed header with ANOTHER block attached (only the
// consumer's validation ties the attached block to the signed hash), and the link is healed.
func (w *World) lateProposalStep() {
	d := w.dir
	if d == nil {
		d = &director{h: uint64(1 + w.ch.Pick("dir-h", w.cfg.Heights)), budget: 300}
		ld := w.keys.IdxOf(w.leader(d.h, 0))
		if ld < 0 || ld >= len(w.nodes) || !w.isByz(ld) || w.disabled("byz.pp") {
			w.cfg.Director = ""
			return
		}
		var cands []int
		for _, idx := range w.committeeIdx(d.h) {
			if !w.isByz(idx) {
				cands = append(cands, idx)
			}
		}
		if len(cands) == 0 {
			w.cfg.Director = ""
			return
		}
		d.lucky = cands[w.ch.Pick("dir-lucky", len(cands))]
		d.view1 = int64(ld)
		w.dir = d
		w.hold = func(f *Flight) bool {
			if d.state != 0 || f.to != d.lucky {
				return false
			}
			m := Decode(f.raw)
			return m != nil && (m.Kind == KPP || m.Kind == KNV) && m.Height() == d.h
		}
		w.ev("director late-proposal h%d slow link to n%d, leader n%d", d.h, d.lucky, ld)
		w.probe("director-late-proposal-active")
	}
	if d.state != 0 {
		return
	}
	x := w.nodes[d.lucky]
	if x.alive && x.height() < d.h {
		return // not there yet
	}
	d.budget--
	if d.budget <= 0 || !x.alive || x.height() > d.h || x.view() != 0 {
		d.state = 1
		w.hold = nil
		return
	}
	w.probe("director-late-proposal-waiting")
	if d.wait == 0 {
		// the leader proposes (to a tape-chosen subset of the correct nodes; the slow node's copy is withheld)
		d.wait = 1
		w.advPP(int(d.view1), d.h, 0, "byz.pp")
		return
	}
	// PREPAREs of view 0 stored by the node, per hash
	_, f, _ := thresholds(w.Committee(d.h))
	by := map[string]map[string]bool{}
	for _, st := range x.obs.stores {
		if st.ok && st.kind == "P" && st.h == d.h && st.v == 0 && st.epoch == x.epoch {
			if by[string(st.hash)] == nil {
				by[string(st.hash)] = map[string]bool{}
			}
			by[string(st.hash)][string(st.sender)] = true
		}
	}
	ld := int(d.view1)
	sg := w.signer(ld)
	for _, m := range w.byzProposals {
		if m.Kind != KPP || m.Ref.H != d.h || m.Ref.V != 0 || !m.Sender.Id.Equal(sg.Id()) {
			continue
		}
		if ids := by[string(m.Ref.Hash)]; ids != nil && w.weightOf(d.h, ids) > f {
			other := w.freshBlock(d.h, ld, w.ch.Pick("pp-poison", 4) == 3)
			raw := SignedRefMsg(sg, KPP, protocol.LEAN_HELIX_PREPREPARE, w.instance, d.h, 0, m.Ref.Hash, nil, other)
			d.state = 1
			w.hold = nil
			// the withheld proposals are lost on the slow link; the late one arrives
			keep := w.flights[:0]
			for _, fl := range w.flights {
				if fl.to == d.lucky {
					if mm := Decode(fl.raw); mm != nil && (mm.Kind == KPP || mm.Kind == KNV) && mm.Height() == d.h {
						w.stats.Fault("drop")
						continue
					}
				}
				keep = append(keep, fl)
			}
			w.flights = keep
			w.use("byz.pp-known-header-other-block")
			w.probe("director-late-proposal-reached")
			w.inject(ld, raw, "byz.pp", []int{d.lucky})
			w.advPlan = append(w.advPlan, "byz.follow", "byz.follow", "byz.follow", "byz.follow")
			return
		}
	}
}

func (w *World) twoLocksStep() {
	d := w.dir
	if d == nil {
		d = &director{h: uint64(1 + w.ch.Pick("dir-h", w.cfg.Heights)), budget: 600}
		var cands []int
		for _, idx := range w.committeeIdx(d.h) {
			if !w.isByz(idx) {
				cands = append(cands, idx)
			}
		}
		if len(cands) == 0 {
			w.cfg.Director = ""
			return
		}
		d.lucky = cands[w.ch.Pick("dir-lucky", len(cands))]
		d.state = 10
		d.view1 = -1
		d.view2 = -1
		w.dir = d
		w.hold = func(f *Flight) bool {
			if f.tag != "" {
				return false
			}
			m := Decode(f.raw)
			if m == nil || m.Height() != d.h {
				return false
			}
			switch d.state {
			case 10, 11:
				return m.Kind == KP && (d.view1 < 0 || int64(m.Ref.V) == d.view1)
			case 12:
				return m.Kind == KC && int64(m.Ref.V) == d.view2 && f.to != d.lucky
			}
			return false
		}
		w.ev("director two-locks h%d lucky n%d", d.h, d.lucky)
	}
	d.budget--
	if d.budget <= 0 && d.state < 13 {
		d.state = 13
		w.hold = nil
		return
	}
	dropHeld := func() {
		keep := w.flights[:0]
		for _, f := range w.flights {
			if w.hold != nil && w.hold(f) {
				w.stats.Fault("drop")
				continue
			}
			keep = append(keep, f)
		}
		w.flights = keep
	}
	timeoutAll := func(except int) {
		for _, n := range w.honest() {
			if n.idx == except || !n.alive || n.height() != d.h || n.trig == nil || n.trig.cur == nil || n.trig.cur.fired {
				continue
			}
			w.stats.Fault("timer-early")
			w.fireTimer(n, n.trig.cur, "timer-fire(director)")
		}
	}
	switch d.state {
	case 10: // wait for the first PREPAREs of that height
		for _, s := range w.sent {
			if s.msg != nil && s.msg.Kind == KP && s.msg.Ref.H == d.h && d.view1 < 0 {
				d.view1 = int64(s.msg.Ref.V)
				d.state = 11
				d.wait = 12
			}
		}
	case 11: // let the other nodes send their PREPAREs too, then lose them all and time everybody out
		d.wait--
		if d.wait <= 0 {
			dropHeld()
			d.state = 12
			timeoutAll(-1)
			w.probe("director-first-lock-lost")
		}
	case 12: // the next view with COMMITs: only the lucky node decides
		if d.view2 < 0 {
			for _, s := range w.sent {
				if s.msg != nil && s.msg.Kind == KC && s.msg.Ref.H == d.h && int64(s.msg.Ref.V) > d.view1 {
					d.view2 = int64(s.msg.Ref.V)
				}
			}
			return
		}
		for _, c := range w.nodes[d.lucky].obs.commits {
			if c.height == d.h {
				dropHeld()
				d.state = 13
				w.hold = nil
				timeoutAll(d.lucky)
				w.probe("director-two-locks-reached")
				has := map[string]bool{}
				for _, x := range w.cfg.Strategies {
					has[x] = true
				}
				// further timeouts until the remaining correct nodes sit in a view led by a Byzantine member
				if len(w.byzMembersAt(d.h)) > 0 {
					for k := 0; k < len(w.Committee(d.h))+1; k++ {
						var cur uint64
						any := false
						for _, n := range w.honest() {
							if n.idx != d.lucky && n.alive && n.height() == d.h {
								any = true
								if n.view() > cur {
									cur = n.view()
								}
							}
						}
						if !any || w.isByz(w.keys.IdxOf(w.leader(d.h, cur))) {
							break
						}
						timeoutAll(d.lucky)
					}
				}
				if has["byz.nv-stale-lock"] && has["byz.follow"] {
					for i := 0; i < 3; i++ {
						w.advPlan = append(w.advPlan, "byz.nv-stale-lock", "byz.follow", "byz.follow", "byz.follow", "byz.follow", "byz.follow", "byz.follow")
					}
				}
				return
			}
		}
	}
}

// failOnlyGatePolicy: consumer-side failures without blocking (so that no worker-select control is needed): the
// consumer rejects a proposal, fails to persist a committed block, or the committee lookup fails.
func (w *World) failOnlyGatePolicy(n *Node) func(kind string, h uint64) GateVerdict {
	return func(kind string, h uint64) GateVerdict {
		if w.stabilised || w.recovering {
			return GatePass
		}
		pm := 0
		switch kind {
		case "validate":
			pm = w.cfg.ValidateFailPm
		case "commit":
			pm = w.cfg.CommitFailPm
		case "committee":
			pm = w.cfg.CommitteeFailPm
		}
		if pm > 0 && w.ch.Chance("spi-fail:"+kind, pm) {
			w.stats.Fault("spi-error-" + kind)
			if kind == "commit" {
				w.commitFailedN = n
			}
			return GateFail
		}
		return GatePass
	}
}

package lhsim

import (
	"bytes"
	"math"
)

// Oracles that need the real two-goroutine runtime: C14 (node sync), C15 (SPI contexts), parts of C13 / C16.

type updateRec struct {
	step     int
	b        uint64 // height of the block handed to UpdateState (0: genesis)
	hAtCall  uint64
	vAtCall  uint64
	returned bool
	err      error
	accepted bool // the main loop's own filter (newest sync wins) let it through, by the model
	judged   bool
}

// gatePosition bounds the view of the context position the library used for a blocked SPI call.
func (n *Node) gatePosition(g *Gate) {
	cur := n.hv()
	switch g.kind {
	case "committee", "commit", "newround":
		g.vmin, g.vmax = math.MaxUint64, math.MaxUint64 // term-level umbrella context
		if g.kind == "newround" {
			g.vmin, g.vmax = 0, 0
		}
	case "propose":
		g.vmin, g.vmax = cur.v, cur.v
	case "validate":
		m := n.curMsg
		if m != nil && (m.Kind == KPP || m.Kind == KNV) && m.Height() == g.height {
			g.vmin, g.vmax = m.View(), m.View()
		} else {
			g.vmin, g.vmax = 0, math.MaxUint64 // replayed from the future cache: view unknown to the harness
		}
	}
}

func (n *Node) raiseWatermark(x hv) {
	if n.wm.less(x) {
		n.wm = x
	}
}

// noteTrigger: an election trigger for (h, v) is being handed to the node's main loop.
func (w *World) noteTrigger(n *Node, h, v uint64) {
	if v == math.MaxUint64 {
		return
	}
	n.raiseWatermark(hv{h, v + 1})
	// a trigger for the position the node is in must make it leave that position (C19: an armed, un-superseded timer
	// delivers its trigger and it is acted upon; C05's timing premise)
	if cur := n.hv(); cur.h == h && cur.v == v && w.inCommittee(h, n.id) {
		n.dueTrigger = &hv{h, v}
		n.dueStep = w.step
	}
}

// checkDueTriggers: once the node is settled, the trigger for its then-current position has taken effect.
func (w *World) checkDueTriggers() {
	if !w.checks("C19") && !w.checks("C05") {
		return
	}
	for _, n := range w.nodes {
		if n.byz || n.dueTrigger == nil {
			continue
		}
		if !n.alive || n.shuttingDown || n.lh == nil {
			n.dueTrigger = nil
			continue
		}
		if !n.settled() {
			continue
		}
		d := *n.dueTrigger
		n.dueTrigger = nil
		if cur := n.hv(); !d.less(cur) {
			w.violate("C19", "runtime/trigger-not-acted-upon", "n%d: the election trigger for its current position (h%d,v%d) was handed to the main loop, the worker has since come to rest, and the node is still at (h%d,v%d)", n.idx, d.h, d.v, cur.h, cur.v)
			w.violate("C05", "trigger-not-acted-upon", "n%d: the election trigger for its current position (h%d,v%d) was handed to the main loop, the worker has since come to rest, and the node is still at (h%d,v%d)", n.idx, d.h, d.v, cur.h, cur.v)
		} else {
			w.probe("trigger-acted-upon")
		}
	}
}

func (w *World) onRealTimerDue(n *Node) {
	t := n.realTrig
	w.ev("real-timer-due n%d (h%d,v%d) at %v", n.idx, t.cur.h, t.cur.v, t.expiry)
	w.noteTrigger(n, t.cur.h, t.cur.v)
}

// noteUpdateState: UpdateState(block of height b) is being called on n.
func (w *World) noteUpdateState(n *Node, b uint64, internal bool) {
	cur := n.hv()
	rec := updateRec{step: w.step, b: b, hAtCall: cur.h, vAtCall: cur.v}
	// the main loop: a sync that is not newer than the newest one it already accepted is ignored; otherwise every
	// context older than (b+1, 0) is cancelled
	if n.maxSync < 0 || uint64(n.maxSync) < b {
		target := hv{b + 1, 0}
		if !target.less(n.wm) {
			rec.accepted = true
			n.maxSync = int64(b)
		}
		n.raiseWatermark(target)
	}
	n.updates = append(n.updates, rec)
}

// effective watermark: what was handed to the main loop, plus the main loop's own garbage collection.
func (n *Node) effWatermark() hv {
	x := n.wm
	if g := (hv{n.height(), 0}); x.less(g) {
		x = g
	}
	return x
}

// onGateCancelled: a blocked SPI call saw its context end (called from the library goroutine).
func (w *World) onGateCancelled(n *Node, g *Gate) {
	if !w.checks("C15") || n.shuttingDown || !n.alive {
		return
	}
	// contexts of current or future positions are not cancelled by events about older ones
	pos := hv{g.height, g.vmin}
	if !pos.less(n.effWatermark()) {
		w.violate("C15", "runtime/cancelled-by-older-event", "n%d: the context of a blocked %s call at (h%d, view>=%d) was cancelled although nothing told the node to leave that position (watermark %v)", n.idx, g.kind, g.height, g.vmin, n.effWatermark())
	}
}

// checkGates: at a quiescent point no SPI call may still be blocked on a context whose position is over.
func (w *World) checkGates() {
	if !w.checks("C15") {
		return
	}
	for _, n := range w.nodes {
		if n.byz || n.lh == nil {
			continue
		}
		if n.mainParked != nil || len(n.pendingSyncs) > 0 {
			continue // the main loop has not finished (or not yet seen) what the model already counts as handed over
		}
		for _, g := range n.gates {
			if g.ignoresCtx {
				continue
			}
			if !n.alive || n.shuttingDown {
				w.violate("C15", "runtime/spi-not-released-by-shutdown", "n%d: %s call at h%d is still blocked after the node was shut down", n.idx, g.kind, g.height)
				return
			}
			pos := hv{g.height, g.vmax}
			if wm := n.effWatermark(); pos.less(wm) {
				w.violate("C15", "runtime/spi-not-released", "n%d: %s call at (h%d, view<=%d) is still blocked although the node was told to leave that position (watermark %v)", n.idx, g.kind, g.height, g.vmax, wm)
				return
			}
		}
	}
}

// settled: nothing is pending inside the node (no blocked SPI call, worker idle with an empty stash).
func (n *Node) settled() bool {
	if len(n.gates) > 0 {
		return false
	}
	if n.ctrl != nil && (n.ctrl.state != wsIdle || n.ctrl.hold) {
		return false
	}
	return true
}

// checkSyncs (C14): every UpdateState that returned nil with a block at or above the height the node was deciding
// has taken effect once the node is settled.
func (w *World) checkSyncs() {
	if !w.checks("C14") {
		return
	}
	for _, n := range w.nodes {
		if n.byz || !n.alive || n.lh == nil || n.shuttingDown {
			continue
		}
		w.pollPendingSyncs(n)
		if n.mainParked != nil || len(n.pendingSyncs) > 0 {
			continue
		}
		// "even while the worker is inside a long SPI call": once UpdateState(b) has returned nil, no SPI call of a
		// height <= b may still be waiting on a live context - it would keep the worker from ever reaching the sync
		for _, g := range n.gates {
			if g.ignoresCtx || g.ctx == nil || g.ctx.Err() != nil {
				continue
			}
			for i := range n.updates {
				u := &n.updates[i]
				if u.returned && u.err == nil && u.b >= u.hAtCall && u.b >= g.height {
					w.violate("C14", "sync-stalled-behind-spi-call", "n%d: UpdateState(block h%d) returned nil while the node decided h%d, and its worker is still inside a %s call of h%d whose context is alive: the sync cannot take effect", n.idx, u.b, u.hAtCall, g.kind, g.height)
					return
				}
			}
			w.probe("spi-call-checked-against-syncs")
		}
		if !n.settled() {
			continue
		}
		h := n.height()
		for i := range n.updates {
			u := &n.updates[i]
			if u.judged || !u.returned || u.err != nil {
				continue
			}
			u.judged = true
			if u.b >= u.hAtCall && h <= u.b {
				w.violate("C14", "sync-did-not-take-effect", "n%d: UpdateState(block h%d) returned nil while the node decided h%d, but the settled node is still at h%d", n.idx, u.b, u.hAtCall, h)
				return
			}
			if u.b >= u.hAtCall {
				w.probe("sync-took-effect")
			}
		}
	}
}

func (w *World) preSync(n *Node, th uint64) {
	n.syncPre = &preState{hv: n.hv(), nSends: len(n.obs.sends), nRegs: len(n.obs.registrations), nCommits: len(n.obs.commits), nStores: len(n.obs.newRounds)}
}

func (w *World) postSync(n *Node, th uint64, before hv, err error) {
	if len(n.updates) > 0 {
		u := &n.updates[len(n.updates)-1]
		u.returned, u.err = true, err
	}
	ps := n.syncPre
	if ps == nil || !w.checks("C14") || err != nil {
		return
	}
	// a sync below the height being decided changes nothing (judged only when the worker had nothing else to do:
	// with other events pending, effects in this step cannot be attributed)
	if th < before.h && n.ctrl == nil && len(n.gates) == 0 {
		if len(n.obs.sends) != ps.nSends || len(n.obs.registrations) != ps.nRegs || len(n.obs.commits) != ps.nCommits || len(n.obs.newRounds) != ps.nStores || n.hv() != before {
			w.violate("C14", "stale-sync-had-effect", "n%d at (h%d,v%d): UpdateState(block h%d) below the current height caused sends/registrations/callbacks or a state change (now %v)", n.idx, before.h, before.v, th, n.hv())
		} else {
			w.probe("stale-sync-ignored")
		}
	}
}

// enteredBySync: the node started deciding height h in this instance without its own commit callback for h-1
// having succeeded, i.e. through UpdateState.
func (n *Node) enteredBySync(h uint64) bool {
	for _, c := range n.obs.commits {
		if c.epoch == n.epoch && !c.failed && c.height+1 == h {
			return false
		}
	}
	return true
}

// checkSyncedRoundFlag: the new-round callback of a round entered by sync above height 1 reports canBeFirstLeader=false.
func (w *World) checkSyncedRoundFlag(n *Node, h uint64, first bool) {
	if h > 1 && first && n.enteredBySync(h) {
		w.violate("C14", "first-leader-flag-after-sync", "n%d entered h%d through a node sync but the new-round callback says canBeFirstLeader=true", n.idx, h)
	}
}

// checkSyncedRoundNotLed: the round entered by a sync above height 1 must not be led at view 0 by this node.
func (w *World) checkSyncedRoundNotLed(n *Node, s *SentRec) {
	m := s.msg
	if m == nil || m.Kind != KPP || m.Ref.V != 0 || m.Ref.H <= 1 {
		return
	}
	if n.enteredBySync(m.Ref.H) {
		w.violate("C14", "first-leader-after-sync", "n%d entered h%d through a node sync and still sent the view-0 proposal", n.idx, m.Ref.H)
	} else {
		w.probe("view0-proposal-after-own-commit")
	}
}

// checkLateProposal (C15): a block obtained from RequestNewBlockProposal under a context that was cancelled by the
// time it returned must not be broadcast.
func (w *World) checkLateProposal(n *Node, s *SentRec) {
	m := s.msg
	if m == nil || (m.Kind != KPP && m.Kind != KNV) {
		return
	}
	for _, p := range n.obs.proposals {
		if p.epoch == n.epoch && p.ctxDeadAtEnd && bytes.Equal(p.hash, m.Ref.Hash) {
			w.violate("C15", "runtime/proposal-broadcast-after-cancel", "n%d broadcast the proposal %x for (h%d,v%d) although the context of the RequestNewBlockProposal call that produced it was cancelled before it returned", n.idx, m.Ref.Hash, m.Height(), m.View())
			return
		}
	}
}

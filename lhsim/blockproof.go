package lhsim

import (
	"bytes"
	"context"
	"fmt"

	leanhelix "github.com/orbs-network/lean-helix-go"
	"github.com/orbs-network/lean-helix-go/services/interfaces"
	"github.com/orbs-network/lean-helix-go/services/randomseed"
	"github.com/orbs-network/lean-helix-go/spec/types/go/primitives"
	"github.com/orbs-network/lean-helix-go/spec/types/go/protocol"
)

// C02: ValidateBlockConsensus soundness. The validator itself has no schedule in it; the simulation contributes the
// material — genuine COMMIT / PREPARE / PREPREPARE signatures and seed shares from real histories — which a
// Byzantine block provider recombines into forged certificates and offers to live nodes (direct calls while their
// loops run, both verification modes). Oracle: the real validator returns nil only if the reference predicate
// holds; it never panics.

func genProofConfig(ch *Chooser, prop, tier string, disabled map[string]bool) *RunConfig {
	cfg := genNetConfig(ch, prop, tier, disabled)
	cfg.Shape = "NET-blockproof"
	cfg.ProofPm = []int{60, 150, 300}[ch.Pick("r-proof", 3)]
	return cfg
}

type proofSpec struct {
	ref   *protocol.BlockRefBuilder
	nodes []Sig
	seed  []byte
}

func (p proofSpec) bytes() []byte {
	b := &protocol.BlockProofBuilder{BlockRef: p.ref, RandomSeedSignature: p.seed}
	for _, s := range p.nodes {
		b.Nodes = append(b.Nodes, sigBuilder(s))
	}
	return b.Build().Raw()
}

// genuine signatures of kind k over (h, v, hash) found in traffic (honest) plus what Byzantine members can add
func (w *World) collectSigs(k Kind, h, v uint64, hash []byte) []Sig {
	var out []Sig
	seen := map[string]bool{}
	for _, s := range w.sent {
		m := s.msg
		if m != nil && m.Kind == k && m.Ref.H == h && m.Ref.V == v && bytes.Equal(m.Ref.Hash, hash) && !seen[string(m.Sender.Id)] {
			seen[string(m.Sender.Id)] = true
			out = append(out, m.Sender)
		}
	}
	return out
}

func (w *World) byzCommitSig(b int, t protocol.MessageType, h, v uint64, hash []byte) Sig {
	sg := w.signer(b)
	return Sig{sg.Id(), sg.Msg(h, refBuilder(t, w.instance, h, v, hash).Build().Raw())}
}

// subsetByWeight picks signers whose total weight is as close as possible to the target from below / at it.
func (w *World) subsetToWeight(h uint64, sigs []Sig, target uint64) []Sig {
	var out []Sig
	var sum uint64
	for _, s := range sigs {
		var wt uint64
		for _, m := range w.Committee(h) {
			if m.Id.Equal(s.Id) {
				wt = uint64(m.Weight)
			}
		}
		if sum+wt <= target {
			out = append(out, s)
			sum += wt
		}
	}
	return out
}

func (w *World) forgeProofStep() bool {
	// target: a height for which traffic exists
	var live []*Node
	for _, n := range w.honest() {
		if n.alive && n.height() > 0 {
			live = append(live, n)
		}
	}
	if len(live) == 0 {
		return false
	}
	victim := live[w.ch.Pick("proof-victim", len(live))]
	// candidate (h, v, hash): any proposal seen, preferring those with commits in traffic
	type cand struct {
		h, v uint64
		hash []byte
	}
	var cands []cand
	seen := map[string]bool{}
	for _, s := range w.sent {
		m := s.msg
		if m != nil && (m.Kind == KC || m.Kind == KP) {
			k := fmt.Sprintf("%d/%d/%x", m.Ref.H, m.Ref.V, m.Ref.Hash)
			if !seen[k] && w.blocks[string(m.Ref.Hash)] != nil {
				seen[k] = true
				cands = append(cands, cand{m.Ref.H, m.Ref.V, m.Ref.Hash})
			}
		}
	}
	if len(cands) == 0 {
		return false
	}
	lo := 0
	if len(cands) > 12 {
		lo = len(cands) - 12
	}
	c := cands[lo+w.ch.Pick("proof-cand", len(cands)-lo)]
	blk := w.blocks[string(c.hash)]
	h := c.h
	comm := w.Committee(h)
	_, f, q := thresholds(comm)
	commits := w.collectSigs(KC, h, c.v, c.hash)
	prepares := w.collectSigs(KP, h, c.v, c.hash)
	byz := w.byzMembersAt(h)
	seedC := w.seedContent(h)
	genuineSeed := w.keys.AggSig(h, seedC)
	spec := proofSpec{ref: refBuilder(protocol.LEAN_HELIX_COMMIT, w.instance, h, c.v, c.hash), seed: genuineSeed}
	all := append([]Sig(nil), commits...)
	for _, b := range byz {
		all = append(all, w.byzCommitSig(b, protocol.LEAN_HELIX_COMMIT, h, c.v, c.hash))
	}
	kind := w.ch.Pick("forge-kind", 15)
	name := ""
	offered := interfaces.Block(blk)
	var raw []byte
	switch kind {
	case 0:
		name = "all-available-commits"
		spec.nodes = all
	case 1:
		name = "weight-just-below-quorum"
		spec.nodes = w.subsetToWeight(h, all, q-1)
	case 2:
		name = "weight-exactly-quorum"
		spec.nodes = w.subsetToWeight(h, all, q)
	case 3:
		name = "weight-at-f"
		spec.nodes = w.subsetToWeight(h, all, f)
	case 4:
		name = "weight-f-plus-1"
		spec.nodes = w.subsetToWeight(h, all, f+1)
	case 5:
		name = "duplicate-signers"
		spec.nodes = append(append([]Sig(nil), all...), all...)
	case 6:
		name = "outsider-padding"
		spec.nodes = all
		for _, o := range w.cfg.Outsiders {
			spec.nodes = append(spec.nodes, w.byzCommitSig(o, protocol.LEAN_HELIX_COMMIT, h, c.v, c.hash))
		}
	case 7:
		name = "prepare-signatures-as-commits"
		spec.nodes = append(append([]Sig(nil), prepares...), all...)
		if w.ch.Pick("forge-type-prepare", 2) == 1 {
			spec.ref = refBuilder(protocol.LEAN_HELIX_PREPARE, w.instance, h, c.v, c.hash)
			spec.nodes = prepares
			for _, b := range byz {
				spec.nodes = append(spec.nodes, w.byzCommitSig(b, protocol.LEAN_HELIX_PREPARE, h, c.v, c.hash))
			}
		}
	case 8:
		name = "other-view-or-instance"
		spec.nodes = all
		switch w.ch.Pick("forge-field", 3) {
		case 0:
			spec.ref = refBuilder(protocol.LEAN_HELIX_COMMIT, w.instance, h, c.v+1, c.hash)
		case 1:
			spec.ref = refBuilder(protocol.LEAN_HELIX_COMMIT, w.instance+1, h, c.v, c.hash)
		case 2:
			spec.ref = refBuilder(protocol.LEAN_HELIX_COMMIT, w.instance, h+1, c.v, c.hash)
		}
	case 9:
		name = "seed-signature-tampered"
		spec.nodes = all
		switch w.ch.Pick("forge-seed", 4) {
		case 0:
			spec.seed = nil
		case 1:
			spec.seed = w.keys.AggSig(h+1, seedC)
		case 2:
			spec.seed = w.keys.AggSig(h, []byte("another-seed"))
		case 3:
			if len(commits) > 0 {
				for _, s := range w.sent {
					if s.msg != nil && s.msg.Kind == KC && s.msg.Ref.H == h {
						spec.seed = s.msg.Share // a single member's share instead of the aggregate
						break
					}
				}
			}
		}
	case 10:
		name = "proof-for-another-block"
		spec.nodes = all
		offered = w.freshBlock(h, 0, false)
	case 11:
		name = "bytes-mutated"
		spec.nodes = all
		raw = spec.bytes()
		if len(raw) > 0 {
			switch w.ch.Pick("forge-bytes", 3) {
			case 0:
				raw = raw[:w.ch.Pick("forge-cut", len(raw))]
			case 1:
				raw[w.ch.Pick("forge-pos", len(raw))] ^= byte(1 << uint(w.ch.Pick("forge-bit", 8)))
			case 2:
				n := w.ch.Pick("forge-rlen", 64)
				raw = make([]byte, n)
				for i := range raw {
					raw[i] = byte(w.ch.Pick("byte", 256))
				}
			}
		}
	case 12:
		name = "forged-honest-signatures"
		for _, m := range comm {
			spec.nodes = append(spec.nodes, Sig{m.Id, []byte("forged-signature!")})
		}
	case 14:
		// the same members run another instance (virtual chain) with the same keys: their genuine signatures there
		name = "foreign-instance-quorum"
		spec.ref = refBuilder(protocol.LEAN_HELIX_COMMIT, w.instance+1, h, c.v, c.hash)
		for _, m := range comm {
			idx := w.keys.IdxOf(m.Id)
			spec.nodes = append(spec.nodes, Sig{m.Id, w.keys.SignMsg(idx, h, spec.ref.Build().Raw())})
		}
	case 13:
		name = "nil-block-or-empty-proof"
		spec.nodes = all
		if w.ch.Pick("forge-nil", 2) == 0 {
			offered = nil
		} else {
			raw = []byte{}
		}
	}
	if raw == nil {
		raw = spec.bytes()
	}
	soft := w.ch.Pick("forge-soft", 2) == 1
	w.action("forge-proof")
	w.stats.Fault("byz.forged-block-proof")
	w.use("byz.forged-block-proof/" + name)
	if w.ch.Pick("forge-overlap", 3) == 2 && w.judgeProofOverlapped(victim, offered, raw, h, soft, name) {
		return true
	}
	// both modes, in a tape-chosen order, on the same node: an answer must not depend on what was asked before
	w.judgeProof(victim, offered, raw, h, soft, name)
	if w.viol == nil {
		w.judgeProof(victim, offered, raw, h, !soft, name)
	}
	if w.viol == nil && w.ch.Pick("forge-again", 3) == 2 {
		w.judgeProof(victim, offered, raw, h, soft, name)
	}
	return true
}

// callCancel: the context of one ValidateBlockConsensus call is cancelled from inside a consumer callback of that call
// (at == 0: the committee lookup; at == k > 0: the k-th signature verification).
type callCancel struct {
	node   int
	at     int
	cancel context.CancelFunc
	fired  bool
}

func (c *callCancel) lookup(node int) {
	if c != nil && c.node == node && c.at == 0 && !c.fired {
		c.fired = true
		c.cancel()
	}
}

func (c *callCancel) verify(node int) {
	if c != nil && c.node == node && c.at > 0 && !c.fired {
		c.at--
		if c.at == 0 {
			c.fired = true
			c.cancel()
		}
	}
}

// kmHold: one consumer thread's ValidateBlockConsensus call is held inside its count-th signature verification (a slow
// KeyManager), so that another consumer thread's call on the same instance runs start to finish in between.
type kmHold struct {
	node   int
	count  int
	parked bool
	ch     chan struct{}
}

// judgeProofOverlapped: ValidateBlockConsensus is called by consumer threads, so two calls on one instance may
// overlap. The forged certificate is validated on one thread, held in the middle; a genuine pair is validated on
// another thread meanwhile; then the first call finishes. Both answers are judged as usual.
func (w *World) judgeProofOverlapped(victim *Node, offered interfaces.Block, raw []byte, h uint64, soft bool, name string) bool {
	// a genuine pair of some height, with its predecessor
	var g *StoredBlock
	var gh uint64
	for _, p := range w.honest() {
		for hh, sb := range p.store {
			if g == nil || hh > gh {
				g, gh = sb, hh
			}
		}
	}
	if g == nil {
		return false
	}
	var gPrevB interfaces.Block
	var gPrevP []byte
	if gh > 1 {
		b, p := w.prevOf(gh)
		if b == nil {
			return false
		}
		gPrevB, gPrevP = b, p
	}
	var prevB interfaces.Block
	var prevP []byte
	if h > 1 {
		b, p := w.prevOf(h)
		if b == nil {
			return false
		}
		prevB, prevP = b, p
	}
	hold := &kmHold{node: victim.idx, count: 1 + w.ch.Pick("overlap-at", 4), ch: make(chan struct{})}
	w.kmHold = hold
	type res struct {
		err      error
		panicked bool
	}
	out := make(chan res, 1)
	lh := victim.lh
	go func() {
		var r res
		func() {
			defer func() {
				if x := recover(); x != nil {
					r.panicked, r.err = true, fmt.Errorf("panic: %v", x)
				}
			}()
			r.err = lh.ValidateBlockConsensus(context.Background(), offered, raw, prevB, prevP, soft)
		}()
		out <- r
	}()
	simWait()
	hold.count = 0 // whatever happens next is not held
	if hold.parked {
		w.probe("validation-overlapped")
		w.stats.Fault("validate-calls-overlap")
	}
	var gErr error
	func() {
		defer func() {
			if x := recover(); x != nil {
				gErr = fmt.Errorf("panic: %v", x)
				w.violate("C02", "validator-panicked", "ValidateBlockConsensus panicked on a genuine pair while another call was in progress: %v", x)
			}
		}()
		gErr = lh.ValidateBlockConsensus(context.Background(), g.block, g.proof, gPrevB, gPrevP, false)
	}()
	w.ev("offer-proof n%d genuine h%d (during a held validation) -> err=%v", victim.idx, gh, gErr)
	close(hold.ch)
	simWait()
	w.kmHold = nil
	r := <-out
	w.judgeVerdict(victim, offered, raw, h, soft, name+"(overlapped)", r.err, r.panicked)
	return true
}

// judgeProof offers (block, proof) to the victim's real validator and compares with the reference predicate.
func (w *World) judgeProof(victim *Node, offered interfaces.Block, raw []byte, h uint64, soft bool, name string) {
	var prevB interfaces.Block
	var prevP []byte
	if h > 1 {
		b, p := w.prevOf(h)
		if b == nil {
			return // no genuine previous pair known to any correct store: the caller could not make this call
		}
		prevB, prevP = b, p
	}
	var err error
	panicked := false
	// the caller's context: usually live for the whole call; in some calls it is cancelled (or its deadline passes)
	// while the validator is inside a consumer callback - the committee lookup or the k-th signature verification -
	// and the callback still answers (a consumer that ignores ctx). An error is then a fine answer, acceptance of an
	// invalid certificate is not.
	ctx := context.Background()
	switch w.ch.Pick("call-ctx", 8) {
	case 5:
		c, cancel := context.WithCancel(ctx)
		ctx = c
		w.callCancel = &callCancel{node: victim.idx, at: 0, cancel: cancel}
		name += "(ctx cancelled during committee lookup)"
	case 6:
		c, cancel := context.WithCancel(ctx)
		ctx = c
		w.callCancel = &callCancel{node: victim.idx, at: 1 + w.ch.Pick("call-ctx-at", 4), cancel: cancel}
		name += "(ctx cancelled during a signature verification)"
	case 7:
		c, cancel := context.WithCancel(ctx)
		cancel()
		ctx = c
		name += "(ctx cancelled before the call)"
	}
	func() {
		defer func() {
			if r := recover(); r != nil {
				panicked = true
				err = fmt.Errorf("panic: %v", r)
			}
		}()
		err = victim.lh.ValidateBlockConsensus(ctx, offered, raw, prevB, prevP, soft)
	}()
	if c := w.callCancel; c != nil {
		if c.fired {
			w.probe("validate-call-ctx-cancelled-midway")
			w.stats.Fault("caller-ctx-cancelled-during-validation")
		}
		c.cancel()
		w.callCancel = nil
		simWait() // goroutines the call may have left behind come to rest before the next step
	}
	func() {
		defer func() {
			if r := recover(); r != nil {
				w.violate("C12", "get-member-ids-panicked", "GetMemberIdsFromBlockProof panicked on %d bytes (%s): %v", len(raw), name, r)
			}
		}()
		_, _ = leanhelix.GetMemberIdsFromBlockProof(raw)
	}()
	w.judgeVerdict(victim, offered, raw, h, soft, name, err, panicked)
}

// judgeVerdict compares what the real validator answered with the reference predicate.
func (w *World) judgeVerdict(victim *Node, offered interfaces.Block, raw []byte, h uint64, soft bool, name string, err error, panicked bool) {
	w.ev("offer-proof n%d %s h%d soft=%v bytes=%s -> err=%v", victim.idx, name, h, soft, shortHash(raw), err)
	if panicked {
		w.violate("C02", "validator-panicked", "ValidateBlockConsensus panicked on a %s proof: %v", name, err)
		return
	}
	ok, why := w.refBlockProof(asBlock(offered), raw, soft)
	if ok {
		// the seed signature must verify against the seed derived from the genuine previous proof
		ok, why = w.refSeed(raw, h)
	}
	w.probe("forged-proof-judged")
	if err == nil && !ok {
		w.violate("C02", "accepted-invalid-proof/"+name, "ValidateBlockConsensus(soft=%v) accepted a %s certificate for h%d although: %s", soft, name, h, why)
		return
	}
	if err == nil {
		w.probe("forged-proof-legitimately-valid")
	}
	if err != nil && ok {
		// completeness is C03's business (a genuine pair must validate); counted, not judged here
		w.probe("valid-proof-rejected:" + name)
	}
}

func (w *World) refSeed(raw []byte, h uint64) (ok bool, why string) {
	defer func() {
		if r := recover(); r != nil {
			ok, why = false, "undecodable"
		}
	}()
	p := protocol.BlockProofReader(raw)
	sig := p.RandomSeedSignature()
	if len(sig) == 0 {
		return false, "no random-seed signature"
	}
	// the content honest members of that height signed as their share (no constant of the derivation is mirrored)
	var content []byte
	for _, n := range w.honest() {
		if c, okk := n.obs.shareContent[h]; okk {
			content = c
			break
		}
	}
	if content == nil {
		return true, "" // no correct member has signed a share at that height: nothing to compare with
	}
	if !bytes.Equal(w.keys.AggSig(h, content), sig) {
		return false, "random-seed signature does not verify against the seed of the previous proof"
	}
	return true, ""
}

// offerGenuine: every now and then a genuine stored pair is offered too (the validator must not be trivially negative).
func (w *World) offerGenuineProof() bool {
	var live []*Node
	for _, n := range w.honest() {
		if n.alive && n.height() > 0 {
			live = append(live, n)
		}
	}
	if len(live) == 0 {
		return false
	}
	victim := live[w.ch.Pick("proof-victim", len(live))]
	var hs []uint64
	for _, p := range w.honest() {
		for h := range p.store {
			hs = append(hs, h)
		}
	}
	if len(hs) == 0 {
		return false
	}
	var top uint64
	for _, h := range hs {
		if h > top {
			top = h
		}
	}
	h := 1 + uint64(w.ch.Pick("genuine-h", int(top)))
	var sb *StoredBlock
	for _, p := range w.honest() {
		if x, ok := p.store[h]; ok {
			sb = x
			break
		}
	}
	if sb == nil {
		return false
	}
	var prevB interfaces.Block
	var prevP []byte
	if h > 1 {
		b, p := w.prevOf(h)
		if b == nil {
			return false
		}
		prevB, prevP = b, p
	}
	soft := w.ch.Pick("forge-soft", 2) == 1
	err := victim.lh.ValidateBlockConsensus(context.Background(), sb.block, sb.proof, prevB, prevP, soft)
	w.action("offer-genuine")
	w.ev("offer-genuine n%d h%d soft=%v -> %v", victim.idx, h, soft, err)
	if err == nil {
		w.probe("genuine-proof-accepted")
	}
	return true
}

var _ = primitives.BlockHeight(0)

// syntheticHeightBase: heights from here on never occur in the simulated chain; the block-proof scenario uses them
// for certificates over committees far larger than the simulated network (the validator is a function of its
// inputs and of the committee the consumer reports for that height).
const syntheticHeightBase = 1 << 40

// syntheticProofStep: a committee of 60..140 members that exists only as keys (the harness signs for them), a block
// and its predecessor at a synthetic height, and certificates over that committee: exactly a quorum, one member
// short of it, f+1, f, one signer repeated many times (at a low or a high committee position), members repeated in
// pairs. Real validator nil => reference predicate. Committee size and member position are configuration dimensions
// the simulated network (4..10 nodes) cannot reach.
func (w *World) syntheticProofStep() bool {
	var live []*Node
	for _, n := range w.honest() {
		if n.alive && n.height() > 0 {
			live = append(live, n)
		}
	}
	if len(live) == 0 {
		return false
	}
	victim := live[w.ch.Pick("proof-victim", len(live))]
	size := []int{60, 63, 64, 65, 70, 100, 129, 140}[w.ch.Pick("syn-size", 8)]
	w.synN++
	h := uint64(syntheticHeightBase) + uint64(w.synN)*2
	wmode := w.ch.Pick("syn-wmode", 3)
	var comm []interfaces.CommitteeMember
	var idx []int
	for i := 0; i < size; i++ {
		id := primitives.MemberId(fmt.Sprintf("syn%02d-%03d", w.synN%100, i))
		idx = append(idx, w.keys.addMember(0xC0FFEE, id))
		wt := uint64(1)
		switch wmode {
		case 1:
			wt = uint64(1 + w.ch.Pick("syn-w", 4))
		case 2:
			if i == size-1 {
				wt = uint64(size / 4)
			}
		}
		comm = append(comm, interfaces.CommitteeMember{Id: id, Weight: primitives.MemberWeight(wt)})
	}
	w.comms[h] = comm
	w.comms[h-1] = comm
	W, f, q := thresholds(comm)
	_ = W
	blk := w.freshBlock(h, 0, false)
	prevBlk := w.freshBlock(h-1, 0, false)
	// predecessor certificate: only its seed signature matters to the validator of h
	prevSeed := []byte(fmt.Sprintf("synthetic-seed-%d", w.synN))
	prevRef := refBuilder(protocol.LEAN_HELIX_COMMIT, w.instance, h-1, 0, prevBlk.Hash())
	prevProof := proofSpec{ref: prevRef, seed: prevSeed}.bytes()
	content := randomseed.RandomSeedToBytes(randomseed.CalculateRandomSeed(prevSeed))
	seedSig := w.keys.AggSig(h, content)
	for _, n := range w.honest() {
		if n.obs.shareContent == nil {
			n.obs.shareContent = map[uint64][]byte{}
		}
		n.obs.shareContent[h] = cp(content) // what the (synthetic) members of that height sign as their share
	}
	ref := refBuilder(protocol.LEAN_HELIX_COMMIT, w.instance, h, 0, blk.Hash())
	sign := func(i int) Sig { return Sig{comm[i].Id, w.keys.SignMsg(idx[i], h, ref.Build().Raw())} }
	weightOf := func(i int) uint64 { return uint64(comm[i].Weight) }
	upTo := func(target uint64) []Sig {
		var out []Sig
		var sum uint64
		for i := 0; i < size && sum < target; i++ {
			if sum+weightOf(i) <= target {
				out = append(out, sign(i))
				sum += weightOf(i)
			}
		}
		return out
	}
	repeat := func(i int, times int) []Sig {
		var out []Sig
		for k := 0; k < times; k++ {
			out = append(out, sign(i))
		}
		return out
	}
	name := ""
	var nodes []Sig
	switch w.ch.Pick("syn-kind", 8) {
	case 0:
		name, nodes = "syn-quorum", upTo(q)
	case 1:
		name, nodes = "syn-below-quorum", upTo(q-1)
	case 2:
		name, nodes = "syn-f-plus-1", upTo(f+1)
	case 3:
		name, nodes = "syn-at-f", upTo(f)
	case 4: // one member repeated until its copies would weigh a quorum
		i := w.ch.Pick("syn-pos", size)
		name, nodes = "syn-one-member-repeated", repeat(i, int(q/weightOf(i))+1)
	case 5: // the same, at the highest positions
		i := size - 1 - w.ch.Pick("syn-pos-hi", 3)
		name, nodes = "syn-one-member-repeated-high-position", repeat(i, int(q/weightOf(i))+1)
	case 6: // f+1 worth of copies (soft mode boundary)
		i := size - 1 - w.ch.Pick("syn-pos-hi", 6)
		name, nodes = "syn-one-member-repeated-soft", repeat(i, int(f/weightOf(i))+1)
	default: // below quorum, the last third of the signers listed twice
		base := upTo(q - 1)
		nodes = append(nodes, base...)
		nodes = append(nodes, base[len(base)*2/3:]...)
		name = "syn-tail-duplicated"
	}
	raw := proofSpec{ref: ref, nodes: nodes, seed: seedSig}.bytes()
	soft := w.ch.Pick("forge-soft", 2) == 1
	w.action("forge-proof")
	w.stats.Fault("byz.forged-block-proof")
	w.use("byz.forged-block-proof/" + name)
	w.probe("synthetic-committee-proof")
	for _, mode := range []bool{soft, !soft} {
		var err error
		panicked := false
		func() {
			defer func() {
				if r := recover(); r != nil {
					panicked, err = true, fmt.Errorf("panic: %v", r)
				}
			}()
			err = victim.lh.ValidateBlockConsensus(context.Background(), blk, raw, prevBlk, prevProof, mode)
		}()
		w.judgeVerdict(victim, blk, raw, h, mode, fmt.Sprintf("%s/n=%d", name, size), err, panicked)
		if w.viol != nil {
			break
		}
	}
	return true
}

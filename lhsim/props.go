package lhsim

// Which scenarios decide which property. The first tape decision of every run picks the scenario.

type scenarioDef struct {
	name   string
	weight int
	gen    func(ch *Chooser, prop, tier string, disabled map[string]bool) *RunConfig
	run    Scenario
}

var netScenario = scenarioDef{"NET", 1, genNetConfig, RunNet}
var rtScenario = scenarioDef{"RT", 1, genRTConfig, RunRT}

func plan(prop string) []scenarioDef {
	switch prop {
	case "C02":
		return []scenarioDef{{"NET-blockproof", 1, genProofConfig, RunNet}}
	case "C18":
		return []scenarioDef{{"UNIT-leader", 3, genLeaderConfig, RunLeaderUnit}, {"NET", 1, genNetConfig, RunNet}}
	case "C05":
		return []scenarioDef{{"NET-liveness", 4, genLivenessConfig, RunNet}, {"RT", 1, genRTConfig, RunRT}}
	case "C12", "C13":
		return []scenarioDef{netScenario, rtScenario}
	case "C14", "C16":
		return []scenarioDef{rtScenario}
	case "C15":
		return []scenarioDef{{"COMP-contexts", 60, genCtxConfig, RunCtxComp}, {"COMP-contexts-sweep", 1, genCtxSweepConfig, RunCtxSweep}, {"RT", 40, genRTConfig, RunRT}}
	case "C19":
		return []scenarioDef{{"COMP-timer", 20, genTimerConfig, RunTimerComp}, {"RT", 1, genRTConfig, RunRT}}
	case "C17":
		return []scenarioDef{{"COMP-filter", 39, genFilterConfig, RunFilterComp}, {"COMP-filter-sweep", 1, genFilterSweepConfig, RunFilterSweep}}
	case "C04":
		// external validity depends on what happens around the consumer's validation call (slow, blocking, failing,
		// overtaken by a timeout): a larger share of RT runs than for C01 / C03
		return []scenarioDef{{"NET", 6, genNetConfig, RunNet}, {"RT", 1, genRTConfig, RunRT}}
	case "C01", "C03":
		// oracles evaluated at the commit callback hold on every shape: mostly plain NET runs, and one run in fifteen (about a third of the time) on
		// the RT shape (slow / blocking / failing consumers on one or all nodes, worker-select control, preemptions)
		return []scenarioDef{{"NET", 14, genNetConfig, RunNet}, {"RT", 1, genRTConfig, RunRT}}
	default:
		// message-level oracles (C07 - C11) attribute effects to the delivery made in the same step: NET only
		return []scenarioDef{netScenario}
	}
}

// oracle sets evaluated per check: the property's own oracles (others are skipped so that a check only
// ever reports its own property).
func oraclesFor(prop string) map[string]bool {
	return map[string]bool{prop: true}
}

func BuildRun(ch *Chooser, prop, tier string, disabled map[string]bool) (*RunConfig, Scenario) {
	pl := plan(prop)
	total := 0
	for _, s := range pl {
		total += s.weight
	}
	k := ch.Pick("scenario", total)
	var def scenarioDef
	for _, s := range pl {
		if k < s.weight {
			def = s
			break
		}
		k -= s.weight
	}
	cfg := def.gen(ch, prop, tier, disabled)
	cfg.Oracles = oraclesFor(prop)
	return cfg, def.run
}

package lhsim

import (
	"context"
	"encoding/binary"
	"fmt"

	"github.com/orbs-network/lean-helix-go/services/interfaces"
	L "github.com/orbs-network/lean-helix-go/services/logger"
	"github.com/orbs-network/lean-helix-go/services/rawmessagesfilter"
	"github.com/orbs-network/lean-helix-go/spec/types/go/primitives"
	"github.com/orbs-network/lean-helix-go/spec/types/go/protocol"
	"github.com/orbs-network/lean-helix-go/state"
)

// COMP shape for C17: the real RawMessageFilter and the real state.State, driven by receive / advance
// operations exactly as the worker loop drives them (set height, then ConsumeCacheMessages with the new
// term's handler), against a checker of the recorded history written from the property statement.

type stubMembership struct{ id primitives.MemberId }

func (m stubMembership) MyMemberId() primitives.MemberId { return m.id }
func (m stubMembership) RequestOrderedCommittee(ctx context.Context, h primitives.BlockHeight, s uint64, t primitives.TimestampSeconds) ([]interfaces.CommitteeMember, error) {
	return nil, nil
}
func (m stubMembership) RequestCommitteeForBlockProof(ctx context.Context, h primitives.BlockHeight, t primitives.TimestampSeconds) ([]interfaces.CommitteeMember, error) {
	return nil, nil
}

type fOp struct {
	recv     bool
	height   uint64 // receive: message height; advance: new height
	inst     uint64
	own      bool // sender is this node
	kind     Kind
	complete bool // when delivered to its term, the term completes its height (re-entrant advance)
	id       uint64
}

func (o fOp) String() string {
	if !o.recv {
		return fmt.Sprintf("advance(%d)", o.height)
	}
	s := fmt.Sprintf("recv#%d(h%d %s", o.id, o.height, o.kind)
	if o.inst != 7 {
		s += " foreign-instance"
	}
	if o.own {
		s += " own"
	}
	if o.complete {
		s += " completes"
	}
	return s + ")"
}

type fRecvRec struct {
	op        fOp
	pos       int    // index among receive ops
	heightAt  uint64 // node height when received
	cacheable bool
	higherBefore bool // an accepted-for-caching message for a height above this one had been received before it
}

type fDelivery struct {
	id       uint64
	termH    uint64
	duringStartOf uint64 // non-zero: delivered while the node was starting that height
	seq      int
}

type filterRig struct {
	w        *World
	st       *state.State
	f        *rawmessagesfilter.RawMessageFilter
	me       primitives.MemberId
	other    primitives.MemberId
	recvs    map[uint64]*fRecvRec
	order    []uint64
	deliv    []fDelivery
	starting uint64
	starts   map[uint64]int // height -> delivery seq at which its start finished
	startBegin map[uint64]int
	completes map[uint64]bool
	depth    int
}

type termHandler struct {
	rig *filterRig
	h   uint64
}

func (t *termHandler) HandleConsensusMessage(m interfaces.ConsensusMessage) error {
	r := t.rig
	var id uint64
	switch x := m.(type) {
	case *interfaces.PreprepareMessage:
		id = idFromHash(x.Content().SignedHeader().BlockHash())
	case *interfaces.PrepareMessage:
		id = idFromHash(x.Content().SignedHeader().BlockHash())
	case *interfaces.CommitMessage:
		id = idFromHash(x.Content().SignedHeader().BlockHash())
	case *interfaces.ViewChangeMessage:
		id = uint64(x.Content().SignedHeader().View())
	case *interfaces.NewViewMessage:
		id = uint64(x.Content().SignedHeader().View())
	}
	r.deliv = append(r.deliv, fDelivery{id: id, termH: t.h, duringStartOf: r.starting, seq: len(r.deliv)})
	r.w.ev("handler(h%d) got #%d (msg h%d)", t.h, id, m.BlockHeight())
	// the term this handler belongs to must be the current one and the message must be for its height
	if uint64(m.BlockHeight()) != t.h {
		r.w.violate("C17", "delivered-to-other-height", "message #%d of height %d was handed to the term of height %d", id, m.BlockHeight(), t.h)
	}
	if r.completes[id] && uint64(r.st.Height()) == t.h && r.depth < 8 {
		// the term completes its height: the worker starts the next round re-entrantly
		r.advance(t.h + 1)
	}
	return nil
}

func idFromHash(h []byte) uint64 {
	if len(h) < 8 {
		return 0
	}
	return binary.LittleEndian.Uint64(h)
}

func (r *filterRig) advance(h uint64) {
	if _, err := r.st.SetHeightAndResetView(primitives.BlockHeight(h)); err != nil {
		return // the worker ignores non-increasing heights
	}
	r.depth++
	prev := r.starting
	r.starting = h
	r.startBegin[h] = len(r.deliv)
	r.w.ev("advance h%d", h)
	r.f.ConsumeCacheMessages(&termHandler{r, h})
	r.starts[h] = len(r.deliv)
	r.starting = prev
	r.depth--
}

func (r *filterRig) buildMsg(o fOp) *interfaces.ConsensusRawMessage {
	hash := make([]byte, 8)
	binary.LittleEndian.PutUint64(hash, o.id)
	sender := r.other
	if o.own {
		sender = r.me
	}
	sig := Sig{sender, []byte("sig")}
	switch o.kind {
	case KPP, KP, KC:
		hdr := refBuilder(o.kind.wireType(), o.inst, o.height, 0, hash)
		return BuildRefMsg(o.kind, hdr, sig, []byte("s"), nil)
	case KVC:
		hdr := voteHeaderBuilder(protocol.LEAN_HELIX_VIEW_CHANGE, o.inst, o.height, o.id, Proof{})
		return VoteMsg(&protocol.ViewChangeMessageContentBuilder{SignedHeader: hdr, Sender: sigBuilder(sig)}, nil)
	default:
		hdr := &protocol.NewViewHeaderBuilder{MessageType: protocol.LEAN_HELIX_NEW_VIEW, InstanceId: primitives.InstanceId(o.inst), BlockHeight: primitives.BlockHeight(o.height), View: primitives.View(o.id)}
		nv := &protocol.NewViewMessageContentBuilder{SignedHeader: hdr, Sender: sigBuilder(sig), Message: &protocol.PreprepareContentBuilder{SignedHeader: refBuilder(protocol.LEAN_HELIX_PREPREPARE, o.inst, o.height, o.id, hash), Sender: sigBuilder(sig)}}
		return &interfaces.ConsensusRawMessage{Content: wrapContent(KNV, nv)}
	}
}

func newFilterRig(w *World) *filterRig {
	r := &filterRig{w: w, me: primitives.MemberId("me"), other: primitives.MemberId("peer"), recvs: map[uint64]*fRecvRec{}, starts: map[uint64]int{}, startBegin: map[uint64]int{}, completes: map[uint64]bool{}}
	r.st = state.NewState()
	cfg := &interfaces.Config{InstanceId: 7, Membership: stubMembership{r.me}}
	r.f = rawmessagesfilter.NewConsensusMessageFilter(7, r.me, L.NewLhLogger(cfg, r.st), r.st)
	return r
}

func (r *filterRig) apply(o fOp) {
	if !o.recv {
		r.advance(o.height)
		return
	}
	cur := uint64(r.st.Height())
	rec := &fRecvRec{op: o, pos: len(r.order), heightAt: cur}
	rec.cacheable = o.inst == 7 && !o.own && o.height > cur
	for _, id := range r.order {
		p := r.recvs[id]
		if p.cacheable && p.op.height > o.height {
			rec.higherBefore = true
		}
	}
	r.recvs[o.id] = rec
	r.order = append(r.order, o.id)
	if o.complete {
		r.completes[o.id] = true
	}
	r.w.ev("%s at h%d", o, cur)
	r.f.HandleConsensusRawMessage(r.buildMsg(o))
}

// check evaluates the recorded history against the statement of C17.
func (r *filterRig) check(evictionKnown bool) {
	w := r.w
	count := map[uint64]int{}
	for _, d := range r.deliv {
		rec := r.recvs[d.id]
		if rec == nil {
			w.violate("C17", "delivered-unknown", "handler got message #%d that was never received", d.id)
			return
		}
		count[d.id]++
		o := rec.op
		if count[d.id] > 1 {
			w.violate("C17", "delivered-twice", "%s was delivered twice", o)
			return
		}
		if o.inst != 7 {
			w.violate("C17", "foreign-instance-delivered", "%s reached the protocol logic", o)
			return
		}
		if o.own {
			w.violate("C17", "own-message-delivered", "%s reached the protocol logic", o)
			return
		}
		if o.height != d.termH {
			w.violate("C17", "delivered-to-other-height", "%s was handed to the term of height %d", o, d.termH)
			return
		}
		if o.height < rec.heightAt {
			w.violate("C17", "past-message-delivered", "%s was received at height %d and still delivered", o, rec.heightAt)
			return
		}
	}
	// order: per height, deliveries follow receive order
	last := map[uint64]int{}
	for _, d := range r.deliv {
		rec := r.recvs[d.id]
		if p, ok := last[d.termH]; ok && rec.pos < p {
			w.violate("C17", "order-not-preserved", "%s was delivered after a message of the same height that was received later", rec.op)
			return
		}
		last[d.termH] = rec.pos
	}
	// must-deliver
	delivered := map[uint64]fDelivery{}
	for _, d := range r.deliv {
		delivered[d.id] = d
	}
	for _, id := range r.order {
		rec := r.recvs[id]
		o := rec.op
		if o.inst != 7 || o.own {
			continue
		}
		d, got := delivered[id]
		switch {
		case o.height == rec.heightAt && rec.heightAt > 0:
			// for the current height: handed over at once
			if !got {
				w.violate("C17", "current-height-message-lost", "%s was received at its own height and never delivered", o)
				return
			}
		case o.height > rec.heightAt:
			_, started := r.starts[o.height]
			if got {
				// delivered exactly when the node started that height
				if d.duringStartOf != o.height && !(d.seq >= r.startBegin[o.height] && d.seq < r.starts[o.height]) {
					w.violate("C17", "cached-delivered-late", "%s was not delivered during the start of height %d", o, o.height)
					return
				}
				continue
			}
			if !started || rec.higherBefore {
				continue // never started that height, or dropping it was allowed
			}
			// the node started height H after receiving it, nothing higher had been cached before it: must deliver.
			// (a start that was abandoned re-entrantly because an earlier cached message completed H is exempt:
			// the height was over before this message's turn)
			if r.abandoned(o.height, rec) {
				continue
			}
			class := "must-deliver/lost"
			if r.evictedByLater(rec) {
				class = "must-deliver/evicted-by-later-higher-message"
			}
			w.violate("C17", class, "%s was cached (nothing above height %d had been received before it), the node later started height %d, but the message never reached that term", o, o.height, o.height)
			return
		}
	}
	_ = evictionKnown
}

// abandoned: an earlier-received message of the same height completed that height during its start.
func (r *filterRig) abandoned(h uint64, rec *fRecvRec) bool {
	for _, d := range r.deliv {
		if d.termH == h && r.completes[d.id] && r.recvs[d.id].pos < rec.pos {
			return true
		}
	}
	return false
}

// evictedByLater: a cacheable message for a higher height was received after rec and before the node started rec's height.
func (r *filterRig) evictedByLater(rec *fRecvRec) bool {
	for _, id := range r.order[rec.pos+1:] {
		p := r.recvs[id]
		if p.cacheable && p.op.height > rec.op.height && p.heightAt < rec.op.height {
			return true
		}
	}
	return false
}

func genFilterConfig(ch *Chooser, prop, tier string, disabled map[string]bool) *RunConfig {
	cfg := &RunConfig{Prop: prop, Shape: "COMP-filter", Tier: tier, Disabled: disabled}
	cfg.MaxSteps = 10 + ch.Pick("len", 60)
	if tier == "thorough" {
		cfg.MaxSteps += ch.Pick("len2", 200)
	}
	return cfg
}

func RunFilterComp(w *World) {
	r := newFilterRig(w)
	span := 2 + w.ch.Pick("span", 6)
	noEvict := w.disabled("op.evicting-receive")
	var nextID uint64 = 1
	pendingMax := func() (uint64, bool) { // highest cached height above the current one, and whether lower pending heights exist
		cur := uint64(r.st.Height())
		var top uint64
		for _, id := range r.order {
			p := r.recvs[id]
			if p.cacheable && p.op.height > cur && p.op.height > top {
				top = p.op.height
			}
		}
		return top, top > 0
	}
	for w.step = 0; w.step < w.cfg.MaxSteps && w.viol == nil && !w.tainted; w.step++ {
		cur := uint64(r.st.Height())
		var o fOp
		if w.ch.Pick("op", 4) == 3 {
			o = fOp{height: cur + 1 + uint64(w.ch.Pick("adv-jump", 3))}
			if w.ch.Pick("adv-back", 8) == 7 && cur > 0 {
				o.height = cur - uint64(w.ch.Pick("adv-back-by", int(minU(cur, 2))+1))
			}
			w.action("advance")
		} else {
			o = fOp{recv: true, inst: 7, id: nextID, kind: []Kind{KPP, KP, KC, KVC, KNV}[w.ch.Pick("kind", 5)]}
			nextID++
			lo := int64(cur) - 2
			if lo < 0 {
				lo = 0
			}
			o.height = uint64(lo) + uint64(w.ch.Pick("h", span+2))
			switch w.ch.Pick("bad", 12) {
			case 10:
				o.inst = 8
				w.stats.Fault("foreign-instance")
			case 11:
				o.own = true
				w.stats.Fault("own-sender")
			}
			if w.ch.Pick("completes", 6) == 5 {
				o.complete = true
				w.stats.Fault("completing-message")
			}
			if top, any := pendingMax(); any && o.height > top && o.inst == 7 && !o.own && o.height > cur {
				if noEvict {
					o.height = top
				} else {
					w.use("op.evicting-receive")
					w.stats.Fault("evicting-receive")
				}
			}
			if o.height < cur {
				w.stats.Fault("past-message")
			} else if o.height > cur {
				w.stats.Fault("future-message")
			}
			w.action("receive")
		}
		r.apply(o)
		r.check(false) // online, so that a failing run ends at the violation and its tape stays short
	}
	if len(r.deliv) > 0 {
		w.probe("nontrivial")
	}
	for _, d := range r.deliv {
		if d.duringStartOf != 0 {
			w.probe("cache-consumed")
			break
		}
	}
	r.check(false)
}

// RunFilterSweep enumerates every operation sequence up to a length over a small alphabet (supplementary,
// exhaustive for that sub-space only).
func genFilterSweepConfig(ch *Chooser, prop, tier string, disabled map[string]bool) *RunConfig {
	cfg := &RunConfig{Prop: prop, Shape: "COMP-filter-sweep", Tier: tier, Disabled: disabled}
	cfg.MaxSteps = 4
	if tier == "thorough" {
		cfg.MaxSteps = 5
	}
	cfg.Window = ch.Pick("sweep-part", 8) // which eighth of the first-op space this run enumerates
	return cfg
}

func RunFilterSweep(w *World) {
	// alphabet: receive at height 1..4 (plain / completing), receive foreign, receive own, advance to 1..4
	type sym struct {
		o fOp
	}
	var alpha []fOp
	for h := uint64(1); h <= 4; h++ {
		alpha = append(alpha, fOp{recv: true, inst: 7, height: h, kind: KP})
		alpha = append(alpha, fOp{recv: true, inst: 7, height: h, kind: KC, complete: true})
		alpha = append(alpha, fOp{height: h})
	}
	alpha = append(alpha, fOp{recv: true, inst: 8, height: 2, kind: KP}, fOp{recv: true, inst: 7, own: true, height: 2, kind: KP})
	noEvict := w.disabled("op.evicting-receive")
	K := len(alpha)
	L := w.cfg.MaxSteps
	total := 1
	for i := 0; i < L; i++ {
		total *= K
	}
	part := w.cfg.Window
	seqs := 0
	for n := part; n < total && w.viol == nil && !w.tainted; n += 8 {
		r := newFilterRig(w)
		r.advance(1)
		x := n
		skip := false
		var id uint64 = 1
		for i := 0; i < L; i++ {
			o := alpha[x%K]
			x /= K
			if o.recv {
				o.id = id
				id++
				if noEvict {
					cur := uint64(r.st.Height())
					for _, pid := range r.order {
						p := r.recvs[pid]
						if p.cacheable && p.op.height > cur && o.height > p.op.height && o.inst == 7 && !o.own {
							skip = true
						}
					}
				}
			}
			if skip {
				break
			}
			r.apply(o)
		}
		if skip {
			continue
		}
		seqs++
		r.check(false)
	}
	w.stats.Probes["sweep-sequences"] += seqs
	w.stats.Fault("future-message")
	w.probe("nontrivial")
	w.step = seqs
}

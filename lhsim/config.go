package lhsim

import (
	"time"

	"github.com/orbs-network/lean-helix-go/services/interfaces"
	"github.com/orbs-network/lean-helix-go/spec/types/go/primitives"
)

type CM struct {
	Idx    int    `json:"i"`
	Weight uint64 `json:"w"`
}

type RunConfig struct {
	Prop     string          `json:"property"`
	Shape    string          `json:"shape"`
	Tier     string          `json:"tier"`
	Oracles  map[string]bool `json:"oracles,omitempty"`  // nil: all
	Disabled map[string]bool `json:"disabled,omitempty"` // ingredients disabled (known findings)
	Known    map[string]string `json:"known,omitempty"`  // oracle class -> ingredient that must have been used ("" = any): listed known findings

	N          int             `json:"n"`
	Heights    int             `json:"heights"`
	Committees map[uint64][]CM `json:"committees"`
	Byz        []int           `json:"byzantine"`
	Outsiders  []int           `json:"outsiders"`

	StorageOrder int `json:"storage_order"`
	RefTimeMode  int `json:"ref_time_mode"` // reference times of blocks: 0 distinct per height, 1 all equal, 2 pairs of consecutive heights share one
	MaxSteps     int `json:"max_steps"`
	MaxLatencyMs int `json:"max_latency_ms"`
	Window       int `json:"window"`

	DropPm, DupPm, DelayPm, ByzPm, CrashPm, PartPm, SyncPm, GatePm int
	SendErrPermille                                                int
	ValidateFailPm, CommitFailPm, CommitteeFailPm, SpiBlockPm      int
	StaleTriggerPm, TimerEarlyPm                                   int
	NoNaturalTimers                                                bool
	MaxDead                                                        int
	NoisePm                                                        int

	Strategies    []string `json:"strategies"`
	WorkerControl bool     `json:"worker_control"`
	RealTimer     bool     `json:"real_timer"`
	TimerBaseMs   []int    `json:"timer_base_ms"`
	FaultFree     bool     `json:"fault_free"`
	StabiliseAt   int      `json:"stabilise_at"` // step at which phase 2 starts (0: never)
	Mutation      string   `json:"mutation,omitempty"`
	Director      string   `json:"director,omitempty"`
	HasFocus       bool `json:"has_focus,omitempty"`
	Focus          int  `json:"focus,omitempty"`
	FocusRealTimer bool `json:"focus_real_timer,omitempty"`
	LateResultPm, ReleasePm, ApiPm, HoldPm, BurstPm, LogYieldPm, YieldPm, TimeoutBlockedPm int
	CancelAt       int  `json:"cancel_at,omitempty"`
	AllGated       bool `json:"all_gated,omitempty"`
	ProofPm        int  `json:"proof_pm,omitempty"`
	LenientNilBlock bool `json:"lenient_nil_block,omitempty"`
}

type Limits struct {
	MaxN       int
	MaxHeights int
	MaxSteps   int
}

func tierLimits(tier string) Limits {
	if tier == "thorough" {
		return Limits{MaxN: 10, MaxHeights: 4, MaxSteps: 5000}
	}
	return Limits{MaxN: 7, MaxHeights: 3, MaxSteps: 1500}
}

var rateSet = []int{0, 0, 5, 20, 60, 150}

func drawRate(ch *Chooser, label string) int {
	return rateSet[ch.Pick(label, len(rateSet))]
}

// genCommittees draws committees (order = leader order) and weights for heights 1..H+1.
func genCommittees(ch *Chooser, cfg *RunConfig, subset bool) {
	cfg.Committees = map[uint64][]CM{}
	mode := ch.Pick("wmode", 8) // 0 equal, 1 small random, 2 one dominant-ish, 3 skewed, 4 huge, 5 small random, 6/7 enormous (total in [2^63, 2^64))
	samePerHeight := ch.Pick("same-committee", 2) == 0
	var first []CM
	for h := 1; h <= cfg.Heights+1; h++ {
		if h > 1 && samePerHeight {
			cfg.Committees[uint64(h)] = first
			continue
		}
		size := cfg.N
		if subset && cfg.N > 4 && ch.Pick("subset", 3) == 2 {
			size = 4 + ch.Pick("subset-size", cfg.N-4+1)
		}
		perm := ch.Perm("order", cfg.N)
		var c []CM
		var target uint64
		if mode >= 6 {
			// the total weight fits in 64 bits but not in 63: doubling or tripling it wraps
			r := uint64(ch.Pick("w-total-r", 1000))
			target = []uint64{1<<63 + r, ^uint64(0) - r, 3<<62 + r, 1 << 63}[ch.Pick("w-total", 4)]
		}
		for _, idx := range perm[:size] {
			var wgt uint64 = 1
			switch mode {
			case 1, 5:
				wgt = uint64(1 + ch.Pick("w", 5))
			case 2:
				wgt = 1
			case 3:
				wgt = uint64(1) << uint(ch.Pick("w", 6))
			case 4:
				wgt = (uint64(1) << 52) + uint64(ch.Pick("w", 1000))
			case 6, 7:
				wgt = target / uint64(size)
				if len(c) == 0 {
					wgt += target % uint64(size)
				}
			}
			c = append(c, CM{idx, wgt})
		}
		if mode == 2 {
			// one member holds just under a third
			var rest uint64
			for _, m := range c[1:] {
				rest += m.Weight
			}
			k := ch.Pick("dom", len(c))
			c[k].Weight = 1 + rest/3
		}
		cfg.Committees[uint64(h)] = c
		if h == 1 {
			first = c
		}
	}
}

func (cfg *RunConfig) committee(h uint64, keys *Keys) []interfaces.CommitteeMember {
	c, ok := cfg.Committees[h]
	if !ok {
		return nil
	}
	out := make([]interfaces.CommitteeMember, len(c))
	for i, m := range c {
		out[i] = interfaces.CommitteeMember{Id: keys.ids[m.Idx], Weight: primitives.MemberWeight(m.Weight)}
	}
	return out
}

// genByzantine picks a Byzantine set whose weight is at most f for every generated height.
func genByzantine(ch *Chooser, cfg *RunConfig, want int) {
	cfg.Byz = nil
	if want == 0 {
		return
	}
	perm := ch.Perm("byz-cand", cfg.N)
	chosen := map[int]bool{}
	for _, cand := range perm {
		if len(chosen) >= want {
			break
		}
		chosen[cand] = true
		ok := true
		for _, c := range cfg.Committees {
			var W, b uint64
			for _, m := range c {
				W += m.Weight
				if chosen[m.Idx] {
					b += m.Weight
				}
			}
			if W == 0 || b > (W-1)/3 {
				ok = false
				break
			}
		}
		if !ok {
			delete(chosen, cand)
		}
	}
	for i := 0; i < cfg.N; i++ {
		if chosen[i] {
			cfg.Byz = append(cfg.Byz, i)
		}
	}
}

func (w *World) setup() {
	cfg := w.cfg
	total := cfg.N + len(cfg.Outsiders)
	// member ids: short ("m03"), long with a common prefix (real ids are 20-byte addresses; anything that abbreviates
	// an id must not confuse two members), or differing in their last byte only
	w.keys = NewKeysShaped(0xC0FFEE, total, w.ch.Pick("id-shape", 3))
	w.instance = 7
	for h := range cfg.Committees {
		w.comms[h] = cfg.committee(h, w.keys)
	}
	byz := map[int]bool{}
	for _, b := range cfg.Byz {
		byz[b] = true
	}
	for i := 0; i < total; i++ {
		n := w.newNode(i, byz[i] || i >= cfg.N)
		if i < len(cfg.TimerBaseMs) && cfg.TimerBaseMs[i] > 0 {
			n.timerBase = time.Duration(cfg.TimerBaseMs[i]) * time.Millisecond
		}
		n.useRealTimer = cfg.RealTimer
		if cfg.RealTimer {
			n.timerBase += time.Duration(i) * time.Microsecond
		}
		w.nodes = append(w.nodes, n)
	}
}

func (w *World) isByz(idx int) bool { return idx < 0 || idx >= len(w.nodes) || w.nodes[idx].byz }

func (w *World) honest() []*Node {
	var out []*Node
	for _, n := range w.nodes {
		if !n.byz {
			out = append(out, n)
		}
	}
	return out
}

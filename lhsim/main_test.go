package lhsim

import (
	"encoding/json"
	"flag"
	"fmt"
	"os"
	"sort"
	"strings"
	"testing"
	"time"
)

var (
	fProp     = flag.String("sim.prop", "C01", "property id")
	fTier     = flag.String("sim.tier", "quick", "tier")
	fSeed     = flag.Uint64("sim.seed", 1, "seed (VERIF_SEED)")
	fFrom     = flag.Uint64("sim.from", 0, "first run index")
	fStride   = flag.Uint64("sim.stride", 1, "run index stride")
	fMaxRuns  = flag.Uint64("sim.maxruns", 1<<62, "max runs")
	fBudget   = flag.Float64("sim.budget", 5, "wall-clock budget in seconds")
	fOut      = flag.String("sim.out", "", "result json path")
	fMode     = flag.String("sim.mode", "search", "search | replay | minimize | print")
	fReplay   = flag.String("sim.replay", "", "replay file")
	fDisabled = flag.String("sim.disabled", "", "comma separated disabled ingredients")
	fTrace    = flag.Bool("sim.trace", false, "print traces")
	fMaxViol  = flag.Int("sim.maxviol", 3, "stop after this many violations")
	fMutation = flag.String("sim.mutation", "", "internal: harness self-test mutation")
	fKnown    = flag.String("sim.known", "", "comma separated oracle classes that are listed known findings")
	fHashes   = flag.Bool("sim.hashes", false, "record the event-log hash of every run (determinism suite)")
)

type ReplayFile struct {
	Property  string          `json:"property"`
	Oracle    string          `json:"oracle"`
	Detail    string          `json:"detail"`
	Tier      string          `json:"tier"`
	Seed      uint64          `json:"seed"`
	Run       uint64          `json:"run"`
	Disabled  []string        `json:"disabled"`
	Config    *RunConfig      `json:"config"`
	Decisions []Decision      `json:"decisions"`
	LogHash   string          `json:"event_log_hash"`
	Trace     []string        `json:"trace"`
	Ingredients []string      `json:"ingredients"`
	Minimised bool            `json:"minimised"`
	NoMinimise bool           `json:"no_minimise,omitempty"` // the run never ends (a node spins): every candidate would cost the watchdog's full patience
	OrigLen   int             `json:"original_decisions"`
}

type WorkerOut struct {
	Property   string            `json:"property"`
	Tier       string            `json:"tier"`
	Seed       uint64            `json:"seed"`
	Runs       int               `json:"runs"`
	WallS      float64           `json:"wall_s"`
	Steps      int               `json:"steps"`
	SimTimeS   float64           `json:"sim_time_s"`
	Commits    int               `json:"commits"`
	Faults     map[string]int    `json:"faults"`
	Probes     map[string]int    `json:"probes"`
	Actions    map[string]int    `json:"actions"`
	Shapes     map[string]int    `json:"shapes"`
	Nontrivial []string          `json:"nontrivial_hashes"`
	States     int               `json:"distinct_states"`
	Trigrams   int               `json:"distinct_trigrams"`
	Samples    []json.RawMessage `json:"samples"`
	Violations []*ReplayFile     `json:"violations"`
	KnownHits  map[string]int    `json:"known_hits"`
	HarnessErr []string          `json:"harness_errors"`
	Hashes     []string          `json:"hashes,omitempty"`
}

func disabledSet() map[string]bool {
	m := map[string]bool{}
	for _, s := range strings.Split(*fDisabled, ",") {
		if s = strings.TrimSpace(s); s != "" {
			m[s] = true
		}
	}
	return m
}

func disabledList(m map[string]bool) []string {
	var out []string
	for k := range m {
		out = append(out, k)
	}
	sort.Strings(out)
	return out
}

func oneRun(t *testing.T, ch *Chooser, prop, tier string, disabled map[string]bool, tracing bool) *RunResult {
	cfg, scen := BuildRun(ch, prop, tier, disabled)
	cfg.Mutation = *fMutation
	cfg.Known = map[string]string{}
	for _, k := range strings.Split(*fKnown, ",") {
		if k = strings.TrimSpace(k); k != "" {
			parts := strings.SplitN(k, "@", 2)
			if len(parts) == 2 {
				cfg.Known[parts[0]] = parts[1]
			} else {
				cfg.Known[k] = ""
			}
		}
	}
	return RunBubble(t, ch, cfg, tracing, scen)
}

func writeJSON(path string, v interface{}) {
	b, err := json.MarshalIndent(v, "", " ")
	if err != nil {
		panic(err)
	}
	if path == "" {
		os.Stdout.Write(b)
		return
	}
	if err := os.WriteFile(path, b, 0644); err != nil {
		panic(err)
	}
}

func TestSim(t *testing.T) {
	startSpinWatchdog()
	switch *fMode {
	case "search":
		searchMode(t)
	case "replay":
		replayMode(t)
	case "minimize":
		minimizeMode(t)
	default:
		t.Fatalf("unknown mode %s", *fMode)
	}
}

func searchMode(t *testing.T) {
	dis := disabledSet()
	out := &WorkerOut{Property: *fProp, Tier: *fTier, Seed: *fSeed, Faults: map[string]int{}, Probes: map[string]int{}, Actions: map[string]int{}, Shapes: map[string]int{}, KnownHits: map[string]int{}}
	start := time.Now()
	states := map[string]bool{}
	trig := map[string]bool{}
	nt := map[string]bool{}
	var simTime float64 // seconds (a Duration sum overflows: single runs may cover decades of simulated time)
	finish := func() {
		out.WallS = time.Since(start).Seconds()
		out.SimTimeS = simTime
		out.States = len(states)
		out.Trigrams = len(trig)
		for k := range nt {
			out.Nontrivial = append(out.Nontrivial, k)
		}
		sort.Strings(out.Nontrivial)
		writeJSON(*fOut, out)
	}
	var curRun uint64
	var curCh *Chooser
	spinOnFire = func(w *World, prop, oracle, detail string) {
		// called by the CPU-spin watchdog (spin.go): the current run never comes to rest; the process ends here
		out.Runs++
		if prop == "" {
			out.HarnessErr = append(out.HarnessErr, fmt.Sprintf("run %d: %s (the property being checked does not judge this)", curRun, detail))
			finish()
			return
		}
		ing := make([]string, 0, len(w.used))
		for k := range w.used {
			ing = append(ing, k)
		}
		sort.Strings(ing)
		out.Violations = append(out.Violations, &ReplayFile{Property: prop, Oracle: oracle, Detail: detail, Tier: *fTier, Seed: *fSeed, Run: curRun,
			Disabled: disabledList(dis), Config: w.cfg, Decisions: curCh.Rec, LogHash: flushedHash(w), Ingredients: ing, OrigLen: len(curCh.Rec), NoMinimise: true})
		finish()
	}
	for r, k := *fFrom, uint64(0); k < *fMaxRuns; r, k = r+*fStride, k+1 {
		if time.Since(start).Seconds() > *fBudget {
			break
		}
		ch := NewSearchChooser(*fSeed, r)
		if *fProp == "C16" {
			k := uint64(cancelPoints(*fTier))
			ch.Preset(0, int(r/k), int(r%k)) // scenario, base run, cancellation point
		}
		wantTrace := len(out.Samples) < 2
		curRun, curCh = r, ch
		res := oneRun(t, ch, *fProp, *fTier, dis, wantTrace || *fTrace)
		out.Runs++
		out.Steps += res.Stats.Steps
		out.Commits += res.Stats.Commits
		simTime += res.Stats.SimTime.Seconds()
		for k, v := range res.Stats.Faults {
			out.Faults[k] += v
		}
		for k, v := range res.Stats.Probes {
			out.Probes[k] += v
		}
		for k, v := range res.Stats.Actions {
			out.Actions[k] += v
		}
		for k, v := range res.Stats.KnownHits {
			out.KnownHits[k] += v
		}
		for k := range res.Stats.Trigrams {
			trig[k] = true
		}
		out.Shapes[res.Config.Shape]++
		for s := range res.states {
			states[s] = true
		}
		if res.Nontrivial {
			nt[res.LogHash+res.StateHash] = true
		}
		if *fHashes {
			out.Hashes = append(out.Hashes, fmt.Sprintf("%d:%s:%d", r, res.LogHash, len(res.Tape)))
		}
		if res.HarnessErr != "" {
			out.HarnessErr = append(out.HarnessErr, fmt.Sprintf("run %d: %s", r, res.HarnessErr))
			if len(out.HarnessErr) > 5 {
				break
			}
		}
		if wantTrace && (res.Nontrivial || r > *fFrom+20**fStride) {
			tr := res.Trace
			if len(tr) > 40 {
				tr = append(append([]string{}, tr[:40]...), fmt.Sprintf("... %d more events", len(res.Trace)-40))
			}
			s, _ := json.Marshal(map[string]interface{}{"run": r, "shape": res.Config.Shape, "config": res.Sample, "steps": res.Stats.Steps, "faults": res.Stats.Faults, "trace_head": tr})
			out.Samples = append(out.Samples, s)
		}
		if *fTrace && os.Getenv("SIM_DUMP_TRACE") != "" { // development aid
			for _, l := range res.Trace {
				fmt.Println("   " + l)
			}
		}
		if *fTrace {
			fmt.Printf("run %d: %s steps=%d commits=%d maxview=%d viol=%v err=%q leak=%q faults=%v probes=%v\n", r, res.Config.Shape, res.Stats.Steps, res.Stats.Commits, res.Stats.MaxView, res.Violation, res.HarnessErr, res.Leak, res.Stats.Faults, res.Stats.Probes)
		}
		if res.Violation != nil {
			rf := &ReplayFile{Property: res.Violation.Prop, Oracle: res.Violation.Oracle, Detail: res.Violation.Detail, Tier: *fTier, Seed: *fSeed, Run: r,
				Disabled: disabledList(dis), Config: res.Config, Decisions: res.Tape, LogHash: res.LogHash, Ingredients: res.Violation.Ingredients, OrigLen: len(res.Tape)}
			out.Violations = append(out.Violations, rf)
			if len(out.Violations) >= *fMaxViol {
				break
			}
		}
	}
	spinOnFire = nil
	finish()
}

func hex8(b []byte) string { return fmt.Sprintf("%x", b[:8]) }

func loadReplay(t *testing.T) *ReplayFile {
	b, err := os.ReadFile(*fReplay)
	if err != nil {
		t.Fatalf("cannot read replay file: %v", err)
	}
	rf := &ReplayFile{}
	if err := json.Unmarshal(b, rf); err != nil {
		t.Fatalf("bad replay file: %v", err)
	}
	return rf
}

func setOf(l []string) map[string]bool {
	m := map[string]bool{}
	for _, s := range l {
		m[s] = true
	}
	return m
}

type ReplayOut struct {
	Reproduced bool     `json:"reproduced"`
	SameHash   bool     `json:"same_hash"`
	Property   string   `json:"property"`
	Oracle     string   `json:"oracle"`
	Detail     string   `json:"detail"`
	LogHash    string   `json:"log_hash"`
	Diverged   string   `json:"diverged"`
	HarnessErr string   `json:"harness_error"`
	Trace      []string `json:"trace,omitempty"`
}

func replayMode(t *testing.T) {
	rf := loadReplay(t)
	ch := NewReplayChooser(rf.Decisions, true)
	spinOnFire = func(w *World, prop, oracle, detail string) {
		o := &ReplayOut{LogHash: flushedHash(w), Diverged: ch.Diverged, Property: prop, Oracle: oracle, Detail: detail}
		o.Reproduced = prop != "" && prop == rf.Property && oracle == rf.Oracle
		o.SameHash = o.LogHash == rf.LogHash
		if prop == "" {
			o.HarnessErr = detail
		}
		if *fTrace {
			o.Trace = w.trace
		}
		writeJSON(*fOut, o)
	}
	res := oneRun(t, ch, rf.Property, rf.Tier, setOf(rf.Disabled), true)
	spinOnFire = nil
	o := &ReplayOut{LogHash: res.LogHash, Diverged: res.Diverged, HarnessErr: res.HarnessErr}
	if res.Violation != nil {
		o.Property, o.Oracle, o.Detail = res.Violation.Prop, res.Violation.Oracle, res.Violation.Detail
		o.Reproduced = res.Violation.Prop == rf.Property && res.Violation.Oracle == rf.Oracle
	}
	o.SameHash = res.LogHash == rf.LogHash
	if *fTrace {
		o.Trace = res.Trace
	}
	writeJSON(*fOut, o)
}

// minimizeMode: ddmin over the decision tape, then value shrinking, while the same oracle keeps failing.
func minimizeMode(t *testing.T) {
	rf := loadReplay(t)
	dis := setOf(rf.Disabled)
	spinOnFire = func(w *World, prop, oracle, detail string) {
		writeJSON(*fOut, map[string]interface{}{"ok": false, "reason": "a candidate tape made a node spin: " + detail})
	}
	deadline := time.Now().Add(time.Duration(*fBudget * float64(time.Second)))
	tries := 0
	fails := func(tape []Decision) *RunResult {
		tries++
		ch := NewReplayChooser(tape, false)
		res := oneRun(t, ch, rf.Property, rf.Tier, dis, false)
		if res.Violation != nil && res.Violation.Prop == rf.Property && res.Violation.Oracle == rf.Oracle && res.HarnessErr == "" {
			return res
		}
		return nil
	}
	cur := rf.Decisions
	best := fails(cur)
	if best == nil {
		writeJSON(*fOut, map[string]interface{}{"ok": false, "reason": "original tape does not reproduce under lenient replay"})
		return
	}
	cur = best.Tape
	accept := func(cand []Decision) bool {
		// strict progress: shorter tape, or same length with a smaller sum of values
		if r := fails(cand); r != nil && (len(r.Tape) < len(cur) || (len(r.Tape) == len(cur) && tapeSum(r.Tape) < tapeSum(cur))) {
			cur = r.Tape
			best = r
			return true
		}
		return false
	}
	alive := func() bool { return time.Now().Before(deadline) }
	for round := 0; round < 4 && alive(); round++ {
		before := len(cur)
		changed := false
		// pass A: zero single values, left to right (configuration first: fewer nodes, heights, fault kinds)
		for i := 0; i < len(cur) && alive(); i++ {
			if cur[i].V == 0 {
				continue
			}
			for _, nv := range []int{0, cur[i].V / 2, cur[i].V - 1} {
				if nv >= cur[i].V || nv < 0 {
					continue
				}
				cand := append([]Decision{}, cur...)
				cand[i].V = nv
				if accept(cand) {
					changed = true
					break
				}
			}
		}
		// pass B: delete chunks (ddmin), large to small
		for chunk := len(cur) / 2; chunk >= 1 && alive(); chunk /= 2 {
			for i := 0; i+chunk <= len(cur) && alive(); {
				cand := append(append([]Decision{}, cur[:i]...), cur[i+chunk:]...)
				if !accept(cand) {
					i += chunk
				} else {
					changed = true
				}
			}
		}
		// pass C: delete windows of every small size at every position (operations span a few decisions each)
		for size := 12; size >= 1 && alive(); size-- {
			for i := 0; i+size <= len(cur) && alive(); {
				cand := append(append([]Decision{}, cur[:i]...), cur[i+size:]...)
				if !accept(cand) {
					i++
				} else {
					changed = true
				}
			}
		}
		if os.Getenv("SIM_DEBUG_MIN") != "" {
			fmt.Printf("round %d: %d -> %d decisions, %d tries\n", round, before, len(cur), tries)
		}
		if !changed && len(cur) == before {
			break
		}
	}
	// final strict re-run with trace
	ch := NewReplayChooser(cur, true)
	res := oneRun(t, ch, rf.Property, rf.Tier, dis, true)
	if res.Violation == nil || res.Violation.Oracle != rf.Oracle || res.Diverged != "" {
		writeJSON(*fOut, map[string]interface{}{"ok": false, "reason": fmt.Sprintf("minimised tape does not replay strictly: viol=%v diverged=%q", res.Violation, res.Diverged)})
		return
	}
	out := &ReplayFile{Property: rf.Property, Oracle: rf.Oracle, Detail: res.Violation.Detail, Tier: rf.Tier, Seed: rf.Seed, Run: rf.Run, Disabled: rf.Disabled,
		Config: res.Config, Decisions: res.Tape, LogHash: res.LogHash, Trace: res.Trace, Ingredients: res.Violation.Ingredients, Minimised: true, OrigLen: rf.OrigLen}
	writeJSON(*fOut, out)
	fmt.Printf("minimised %d -> %d decisions in %d tries\n", rf.OrigLen, len(res.Tape), tries)
}

func tapeSum(t []Decision) int {
	s := 0
	for _, d := range t {
		s += d.V
	}
	return s
}

func flushedHash(w *World) string {
	w.flushEvents()
	return hex8(w.hasher.Sum(nil))
}

package lhsim

import (
	"fmt"
	"os"
	"sort"
	"time"

	"github.com/orbs-network/lean-helix-go/services/electiontrigger"
	"github.com/orbs-network/lean-helix-go/services/interfaces"
	"github.com/orbs-network/lean-helix-go/spec/types/go/primitives"
	"github.com/orbs-network/lean-helix-go/verifhook"
)

// ---------------------------------------------------------------------------------------------
// Harness side of hook H1 (worker select control)

const (
	wsRunning = iota
	wsParked
	wsIdle
	wsChoosing
)

type workerCtrl struct {
	n       *Node
	state   int
	release chan struct{}
	choice  chan verifhook.Choice
	pending verifhook.Pending
	hold    bool                                       // harness keeps the worker parked
	policy  func(p verifhook.Pending) verifhook.Choice // nil: default priority
	looks   int
}

func newWorkerCtrl(n *Node) *workerCtrl {
	return &workerCtrl{n: n, release: make(chan struct{}), choice: make(chan verifhook.Choice)}
}

func (w *World) controllerFor(key interface{}) verifhook.WorkerController {
	for _, n := range w.nodes {
		if n.cfg != nil && interface{}(n.cfg) == key && n.ctrl != nil {
			return n.ctrl
		}
	}
	return nil
}

func (c *workerCtrl) Park() {
	c.state = wsParked
	<-c.release
	c.state = wsRunning
}

func (c *workerCtrl) Idle() { c.state = wsIdle }

func (c *workerCtrl) Choose(p verifhook.Pending) verifhook.Choice {
	c.pending = p
	c.state = wsChoosing
	if os.Getenv("SIM_DEBUG_LOOK") != "" {
		fmt.Fprintf(os.Stderr, "   .. worker-look n%d pending=%+v\n", c.n.idx, p)
	}
	x := <-c.choice
	c.state = wsRunning
	return x
}

func defaultChoice(p verifhook.Pending) verifhook.Choice {
	switch {
	case p.Messages > 0:
		return verifhook.ChooseMessage
	case p.Election:
		return verifhook.ChooseElection
	case p.Sync:
		return verifhook.ChooseSync
	}
	return verifhook.ChooseDone
}

func pendingKinds(p verifhook.Pending) []verifhook.Choice {
	var out []verifhook.Choice
	if p.Messages > 0 {
		out = append(out, verifhook.ChooseMessage)
	}
	if p.Election {
		out = append(out, verifhook.ChooseElection)
	}
	if p.Sync {
		out = append(out, verifhook.ChooseSync)
	}
	if p.Done {
		out = append(out, verifhook.ChooseDone)
	}
	return out
}

// autoStep advances the controller by one hand-shake; reports whether anything moved.
func (c *workerCtrl) autoStep() bool {
	switch c.state {
	case wsParked:
		if c.hold {
			return false
		}
		c.looks++
		c.release <- struct{}{}
		return true
	case wsChoosing:
		kinds := pendingKinds(c.pending)
		if len(kinds) >= 2 {
			c.n.w.probe("worker-2-kinds-pending")
		}
		var x verifhook.Choice
		if c.policy != nil {
			x = c.policy(c.pending)
		} else {
			x = defaultChoice(c.pending)
		}
		c.n.w.ev("worker-choice n%d pending=%+v -> %d", c.n.idx, c.pending, x)
		c.n.noteWorkerChoice(x, c.pending.Messages)
		c.choice <- x
		return true
	}
	return false
}

func (c *workerCtrl) shutdownStep() bool {
	switch c.state {
	case wsParked:
		c.hold = false
		c.release <- struct{}{}
		return true
	case wsChoosing:
		if c.pending.Done {
			c.choice <- verifhook.ChooseDone
		} else {
			c.choice <- defaultChoice(c.pending)
		}
		return true
	}
	return false
}

// ---------------------------------------------------------------------------------------------
// Harness side of H3 (yield points)

type yieldRec struct {
	point   string
	h, v    uint64
	ch      chan struct{}
	arrival int
	seen    bool // the harness has already decided to keep holding it
}

// atHV is hook H3: a fired election-timer goroutine parks here (when the scenario asked for it) until the
// harness releases it. Identity (height, view) makes the release order independent of the runtime's choice
// among goroutines that became runnable at the same fake instant.
func (w *World) atHV(point string, h, v uint64) {
	if !w.yieldAll {
		return
	}
	w.yieldN++
	y := &yieldRec{point: point, h: h, v: v, ch: make(chan struct{}), arrival: w.yieldN}
	w.yields = append(w.yields, y)
	<-y.ch
}

func (w *World) heldYields() []*yieldRec {
	ys := append([]*yieldRec(nil), w.yields...)
	sort.SliceStable(ys, func(i, j int) bool {
		if ys[i].h != ys[j].h {
			return ys[i].h < ys[j].h
		}
		if ys[i].v != ys[j].v {
			return ys[i].v < ys[j].v
		}
		return false
	})
	return ys
}

func (w *World) releaseYieldRec(y *yieldRec) {
	for i, x := range w.yields {
		if x == y {
			w.yields = append(w.yields[:i], w.yields[i+1:]...)
			break
		}
	}
	close(y.ch)
}

func (w *World) releaseYield(i int) { w.releaseYieldRec(w.heldYields()[i]) }

func (w *World) releaseYields() {
	for len(w.yields) > 0 {
		w.releaseYieldRec(w.heldYields()[0])
		simWait()
	}
}

// settleYields: decide about every newly parked timer goroutine, in (height, view) order. keep == nil releases all.
func (w *World) settleYields(keep func(y *yieldRec) bool) {
	for {
		var next *yieldRec
		for _, y := range w.heldYields() {
			if !y.seen {
				next = y
				break
			}
		}
		if next == nil {
			return
		}
		if keep != nil && keep(next) {
			next.seen = true
			continue
		}
		w.releaseYieldRec(next)
		simWait()
	}
}

// ---------------------------------------------------------------------------------------------
// The library's real timer, wrapped only to record arming so that the harness knows the next expiry.

type RealTrigger struct {
	n      *Node
	inner  *Electiontrigger.TimerBasedElectionTrigger
	armed  bool
	cur    hv
	expiry time.Duration
	armedAt time.Duration
	arms   []armRec
	seen   bool // the harness has already let the clock pass this arming's expiry
}

type armRec struct {
	hv      hv
	at      time.Duration
	timeout time.Duration
	stopped bool
	stopAt  time.Duration
	seq     uint64
}

func NewRealTrigger(n *Node) *RealTrigger {
	return &RealTrigger{n: n, inner: Electiontrigger.NewTimerBasedElectionTrigger(n.timerBase, nil)}
}

func (t *RealTrigger) RegisterOnElection(h primitives.BlockHeight, v primitives.View, cb func(primitives.BlockHeight, primitives.View, interfaces.OnElectionCallback)) {
	w := t.n.w
	w.syncClock()
	x := hv{uint64(h), uint64(v)}
	if !(t.armed && t.cur == x) {
		t.markStopped()
		d := t.inner.CalcTimeout(v)
		t.armed = true
		t.seen = false
		t.cur = x
		t.armedAt = w.now
		t.expiry = w.now + d
		w.seq++
		t.arms = append(t.arms, armRec{hv: x, at: w.now, timeout: d, seq: w.seq})
		t.n.obs.registrations = append(t.n.obs.registrations, x)
		w.ev("register n%d h%d v%d (real timer, timeout %v)", t.n.idx, h, v, d)
		w.onRegister(t.n, x.h, x.v)
	}
	// no preemption between the wrapper's bookkeeping and the library's own arming: the harness' knowledge of the next
	// expiry (and of the old timer being stopped) must match the real timer
	done := w.quiet()
	t.inner.RegisterOnElection(h, v, cb)
	done()
}

func (t *RealTrigger) markStopped() {
	if t.armed && len(t.arms) > 0 {
		a := &t.arms[len(t.arms)-1]
		a.stopped = true
		a.stopAt = t.n.w.now
	}
	t.armed = false
}

func (t *RealTrigger) ElectionChannel() chan *interfaces.ElectionTrigger { return t.inner.ElectionChannel() }
func (t *RealTrigger) CalcTimeout(v primitives.View) time.Duration       { return t.inner.CalcTimeout(v) }
func (t *RealTrigger) Stop() {
	t.n.w.syncClock()
	if t.armed {
		t.n.w.ev("timer-stop n%d", t.n.idx)
	}
	t.markStopped()
	done := t.n.w.quiet()
	t.inner.Stop()
	done()
}

func (w *World) syncClock() {
	w.now = time.Since(w.start)
}

// harnessClock: syncClock on the harness goroutine, at rest. The bubble's clock only moves when every goroutine is
// durably blocked, and the harness goroutine sleeping is the only intended cause; anything else means the harness
// itself got parked somewhere (e.g. inside a fake's gate) and the run is not what the tape says.
func (w *World) harnessClock() {
	w.syncClock()
	if w.now != w.slept {
		panic(harnessPanic(fmt.Sprintf("the simulated clock moved without the harness: at %v, harness slept %v", w.now, w.slept)))
	}
}

// sleep is the only way simulated time advances.
func (w *World) sleep(d time.Duration) {
	if d <= 0 {
		return
	}
	w.slept += d
	if os.Getenv("SIM_DEBUG_SLEEP") != "" {
		fmt.Fprintf(os.Stderr, "   .. sleep %v (now %v)\n", d, w.now)
	}
	spinInWait.Store(true) // the fake clock moves only when everything else is durably blocked
	time.Sleep(d)
	spinInWait.Store(false)
	spinWaits.Add(1)
	// no event-window boundary here: a library timer expiring at the very instant the sleep ends runs before or after
	// the harness resumes as the runtime pleases; the window closes at the quiescence wait that always follows
}

// the bubble's clock starts in the year 2000 and is a 64-bit nanosecond count: keep well inside its range
const maxSimTime = 150 * 365 * 24 * time.Hour

func (w *World) advanceTo(at time.Duration) {
	w.stimAny = true
	defer func() { w.stimAny = false }()
	for _, n := range w.nodes {
		if n.mainParked != nil && n.realTrig != nil && n.realTrig.armed && !n.realTrig.seen && n.realTrig.expiry <= at {
			w.forceReleaseMain(n) // its real timer expires on the way: the main loop must be at its select by then
		}
	}
	w.harnessClock()
	if at > maxSimTime {
		w.timeUp = true
		w.probe("sim-time-exhausted")
		return
	}
	// Time never jumps over something the library itself scheduled on the clock (a retry pause, its real election
	// timer): the clock stops there first, the woken goroutines come to rest, then it moves on.
	for i := 0; i < 100000; i++ {
		next := at
		var wake, real *Node
		for _, n := range w.nodes {
			if !n.alive {
				continue
			}
			if n.wakeAt > 0 && n.wakeAt < next {
				next, wake, real = n.wakeAt, n, nil
			}
			if n.realTrig != nil && n.realTrig.armed && !n.realTrig.seen && n.realTrig.expiry <= next {
				next, wake, real = n.realTrig.expiry, nil, n
			}
		}
		// two things the library itself put on the clock for the same instant (a retry pause of one node and the real
		// election timer of another, armed later with an expiry that happens to coincide): the goroutines they wake
		// would run in an order nobody controls, and one of the two would go un-modelled. The run ends here, unjudged.
		due := 0
		for _, n := range w.nodes {
			if !n.alive {
				continue
			}
			if n.wakeAt > 0 && n.wakeAt == next {
				due++
			}
			if n.realTrig != nil && n.realTrig.armed && n.realTrig.expiry == next {
				due++ // also one the caller has just announced as due (marked seen, not yet fired)
			}
		}
		if due > 1 {
			// nothing that happened in this run is judged from here on (in particular not the trigger the caller may
			// already have announced as due: the clock never reaches its expiry)
			w.timeUp = true
			w.tainted = true
			for _, n := range w.nodes {
				n.dueTrigger = nil
			}
			w.probe("abandoned-library-timers-coincide")
			return
		}
		if real != nil {
			if w.forceReleaseMain(real) {
				continue // what the released loops did may have re-armed the timer: look again
			}
			w.onRealTimerDue(real)
			real.realTrig.seen = true
		}
		if wake != nil {
			wake.wakeAt = 0
		}
		if next > w.now {
			w.sleep(next - w.now)
		}
		w.quiesce()
		w.harnessClock()
		if wake == nil && real == nil {
			break
		}
	}
	for _, n := range w.nodes {
		if n.wakeAt > 0 && n.wakeAt <= w.now {
			n.wakeAt = 0
		}
	}
}

// workerQueueCap is the capacity of the worker's message queue as the hook reports it (pending.Messages is its length).
const workerQueueCap = 1000

func (n *Node) noteWorkerChoice(x verifhook.Choice, queued int) {
	// the worker is between two items here: whatever height it reports, it has announced the round of that height
	if w := n.w; w.checks("C13") && !n.shuttingDown && n.alive {
		cur := n.hv()
		for i := len(n.obs.newRounds) - 1; i >= 0; i-- {
			if r := n.obs.newRounds[i]; r.epoch == n.epoch {
				if cur.h != r.height {
					w.violate("C13", "height-without-round", "n%d reports height %d when its worker looks for the next item, while the last round it announced is for height %d", n.idx, cur.h, r.height)
				}
				break
			}
		}
	}
	if queued != len(n.inbox) && !n.inboxUnknown {
		// the harness's model of the queue disagrees with the queue length the hook reports: positions derived
		// from it would be guesses, so the node's current message is unknown from here on (oracles abstain)
		n.inboxUnknown = true
		n.w.probe("model-inbox-unknown")
		n.w.ev("inbox model of n%d (%d) disagrees with the queue (%d): current message unknown from here", n.idx, len(n.inbox), queued)
	}
	if n.inboxUnknown {
		n.curMsg = nil
		if x == verifhook.ChooseMessage && len(n.inbox) > 0 {
			n.inbox = n.inbox[1:]
		}
		return
	}
	switch x {
	case verifhook.ChooseMessage:
		if len(n.inbox) > 0 {
			n.curMsg = n.inbox[0]
			n.inbox = n.inbox[1:]
		}
	default:
		n.curMsg = nil
	}
}

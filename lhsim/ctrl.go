package lhsim

import (
	"time"

	"github.com/orbs-network/lean-helix-go/services/electiontrigger"
	"github.com/orbs-network/lean-helix-go/services/interfaces"
	"github.com/orbs-network/lean-helix-go/spec/types/go/primitives"
	"github.com/orbs-network/lean-helix-go/verifhook"
)

// ---------------------------------------------------------------------------------------------
// Harness side of hook H1 (worker select control)

const (
	wsRunning = iota
	wsParked
	wsIdle
	wsChoosing
)

type workerCtrl struct {
	n       *Node
	state   int
	release chan struct{}
	choice  chan verifhook.Choice
	pending verifhook.Pending
	hold    bool                                       // harness keeps the worker parked
	policy  func(p verifhook.Pending) verifhook.Choice // nil: default priority
	looks   int
}

func newWorkerCtrl(n *Node) *workerCtrl {
	return &workerCtrl{n: n, release: make(chan struct{}), choice: make(chan verifhook.Choice)}
}

func (w *World) controllerFor(key interface{}) verifhook.WorkerController {
	for _, n := range w.nodes {
		if n.cfg != nil && interface{}(n.cfg) == key && n.ctrl != nil {
			return n.ctrl
		}
	}
	return nil
}

func (c *workerCtrl) Park() {
	c.state = wsParked
	<-c.release
	c.state = wsRunning
}

func (c *workerCtrl) Idle() { c.state = wsIdle }

func (c *workerCtrl) Choose(p verifhook.Pending) verifhook.Choice {
	c.pending = p
	c.state = wsChoosing
	x := <-c.choice
	c.state = wsRunning
	return x
}

func defaultChoice(p verifhook.Pending) verifhook.Choice {
	switch {
	case p.Messages > 0:
		return verifhook.ChooseMessage
	case p.Election:
		return verifhook.ChooseElection
	case p.Sync:
		return verifhook.ChooseSync
	}
	return verifhook.ChooseDone
}

func pendingKinds(p verifhook.Pending) []verifhook.Choice {
	var out []verifhook.Choice
	if p.Messages > 0 {
		out = append(out, verifhook.ChooseMessage)
	}
	if p.Election {
		out = append(out, verifhook.ChooseElection)
	}
	if p.Sync {
		out = append(out, verifhook.ChooseSync)
	}
	if p.Done {
		out = append(out, verifhook.ChooseDone)
	}
	return out
}

// autoStep advances the controller by one hand-shake; reports whether anything moved.
func (c *workerCtrl) autoStep() bool {
	switch c.state {
	case wsParked:
		if c.hold {
			return false
		}
		c.looks++
		c.release <- struct{}{}
		return true
	case wsChoosing:
		kinds := pendingKinds(c.pending)
		if len(kinds) >= 2 {
			c.n.w.probe("worker-2-kinds-pending")
		}
		var x verifhook.Choice
		if c.policy != nil {
			x = c.policy(c.pending)
		} else {
			x = defaultChoice(c.pending)
		}
		c.n.w.ev("worker-choice n%d pending=%+v -> %d", c.n.idx, c.pending, x)
		c.choice <- x
		return true
	}
	return false
}

func (c *workerCtrl) shutdownStep() bool {
	switch c.state {
	case wsParked:
		c.hold = false
		c.release <- struct{}{}
		return true
	case wsChoosing:
		if c.pending.Done {
			c.choice <- verifhook.ChooseDone
		} else {
			c.choice <- defaultChoice(c.pending)
		}
		return true
	}
	return false
}

// ---------------------------------------------------------------------------------------------
// Harness side of H3 (yield points)

type yieldRec struct {
	point string
	ch    chan struct{}
}

func (w *World) installYieldPolicy(policy func(point string) bool) {
	w.atHook = func(p string) {
		if policy != nil && policy(p) {
			y := &yieldRec{p, make(chan struct{})}
			ys, _ := w.extra["yields"].([]*yieldRec)
			w.extra["yields"] = append(ys, y)
			w.probe("yield-held:" + p)
			<-y.ch
		}
	}
}

func (w *World) heldYields() []*yieldRec {
	ys, _ := w.extra["yields"].([]*yieldRec)
	return ys
}

func (w *World) releaseYield(i int) {
	ys := w.heldYields()
	y := ys[i]
	w.extra["yields"] = append(append([]*yieldRec(nil), ys[:i]...), ys[i+1:]...)
	close(y.ch)
}

func (w *World) releaseYields() {
	for len(w.heldYields()) > 0 {
		w.releaseYield(0)
	}
}

// ---------------------------------------------------------------------------------------------
// The library's real timer, wrapped only to record arming so that the harness knows the next expiry.

type RealTrigger struct {
	n      *Node
	inner  *Electiontrigger.TimerBasedElectionTrigger
	armed  bool
	cur    hv
	expiry time.Duration
	armedAt time.Duration
	arms   []armRec
}

type armRec struct {
	hv      hv
	at      time.Duration
	timeout time.Duration
	stopped bool
	stopAt  time.Duration
	seq     uint64
}

func NewRealTrigger(n *Node) *RealTrigger {
	return &RealTrigger{n: n, inner: Electiontrigger.NewTimerBasedElectionTrigger(n.timerBase, nil)}
}

func (t *RealTrigger) RegisterOnElection(h primitives.BlockHeight, v primitives.View, cb func(primitives.BlockHeight, primitives.View, interfaces.OnElectionCallback)) {
	w := t.n.w
	w.syncClock()
	x := hv{uint64(h), uint64(v)}
	if !(t.armed && t.cur == x) {
		t.markStopped()
		d := t.inner.CalcTimeout(v)
		t.armed = true
		t.cur = x
		t.armedAt = w.now
		t.expiry = w.now + d
		w.seq++
		t.arms = append(t.arms, armRec{hv: x, at: w.now, timeout: d, seq: w.seq})
		t.n.obs.registrations = append(t.n.obs.registrations, x)
		w.ev("register n%d h%d v%d (real timer, timeout %v)", t.n.idx, h, v, d)
		w.onRegister(t.n, x.h, x.v)
	}
	t.inner.RegisterOnElection(h, v, cb)
}

func (t *RealTrigger) markStopped() {
	if t.armed && len(t.arms) > 0 {
		a := &t.arms[len(t.arms)-1]
		a.stopped = true
		a.stopAt = t.n.w.now
	}
	t.armed = false
}

func (t *RealTrigger) ElectionChannel() chan *interfaces.ElectionTrigger { return t.inner.ElectionChannel() }
func (t *RealTrigger) CalcTimeout(v primitives.View) time.Duration       { return t.inner.CalcTimeout(v) }
func (t *RealTrigger) Stop() {
	t.n.w.syncClock()
	if t.armed {
		t.n.w.ev("timer-stop n%d", t.n.idx)
	}
	t.markStopped()
	t.inner.Stop()
}

func (w *World) syncClock() {
	w.now = time.Since(w.start)
}

func (w *World) advanceTo(at time.Duration) {
	w.syncClock()
	if at > w.now {
		time.Sleep(at - w.now)
		w.syncClock()
	}
}

package lhsim

import (
	"runtime"
	"strings"
	"sync/atomic"
)

// Scheduling points inserted into the library by tools/yieldinst (before every mutex acquisition, channel operation
// and select of the code as it stands in /repo's working tree). At such a point the harness may park the calling
// goroutine: a preemption. Preemptions are armed by a scheduler action ("the k-th next scheduling point reached by a
// goroutine of role R of node N parks"), i.e. they cost tape decisions only when used, and an unarmed point costs a
// pointer test. A parked goroutine is a Gate of its node (kind "yield"): every oracle that abstains while the node is
// inside a consumer call abstains here too, and the gate-release action / shutdown drain releases it.
//
// Nothing is parked while any library mutex is held (Held counter): sync.Mutex does not block durably in a bubble.

type goInfo struct {
	node *Node
	role string // "worker" | "api" | "timer"
}

type yieldArm struct {
	node  *Node // nil: any goroutine except the harness (component scenarios)
	role  string
	count int
	match string // substring of the point label ("" = any)
}

type yieldState struct {
	arm        *yieldArm
	held       atomic.Int64
	harnessGid uint64
	roles      map[uint64]goInfo
	loose      []*Gate // parked goroutines that belong to no node (component scenarios)
	enabled    bool
	noPark     int // >0: inside a harness wrapper whose bookkeeping must stay atomic with the library call it wraps
}

func goid() uint64 {
	var buf [40]byte
	n := runtime.Stack(buf[:], false)
	// "goroutine 123 ["
	var id uint64
	for i := len("goroutine "); i < n && buf[i] >= '0' && buf[i] <= '9'; i++ {
		id = id*10 + uint64(buf[i]-'0')
	}
	return id
}

func (w *World) enableYields() {
	w.ys.enabled = true
	w.ys.harnessGid = goid()
	if w.ys.roles == nil {
		w.ys.roles = map[uint64]goInfo{}
	}
}

// noteGoroutine records which node and role the calling goroutine belongs to (called from places that know:
// consumer-side fakes run on the worker, API goroutines are spawned by the harness).
func (w *World) noteGoroutine(n *Node, role string) {
	if !w.ys.enabled {
		return
	}
	id := goid()
	if id == w.ys.harnessGid {
		return
	}
	if _, ok := w.ys.roles[id]; !ok {
		w.ys.roles[id] = goInfo{n, role}
	}
}

func (w *World) atHeld(delta int) { w.ys.held.Add(int64(delta)) }

func (w *World) atYield(point string) {
	a := w.ys.arm
	if a == nil {
		return
	}
	if w.ys.held.Load() != 0 || w.ys.noPark > 0 {
		return
	}
	if a.match != "" && !strings.Contains(point, a.match) {
		return
	}
	if strings.HasSuffix(point, ":select") {
		// Go picks at random among the ready cases of a select: parking a goroutine in front of one and letting the
		// world move on manufactures selects with several ready cases whose outcome no tape decision controls
		// (the worker's own select is under hook H1 instead)
		return
	}
	id := goid()
	if id == w.ys.harnessGid {
		return
	}
	info, known := w.ys.roles[id]
	if a.node != nil && (!known || info.node != a.node) {
		return
	}
	if a.role != "" && (!known || info.role != a.role) {
		return
	}
	a.count--
	if a.count > 0 {
		return
	}
	w.ys.arm = nil
	g := &Gate{node: info.node, kind: "yield", release: make(chan GateVerdict, 1), started: w.seq, ignoresCtx: true}
	if n := info.node; n != nil {
		g.height = n.height()
		g.ctx = n.ctx
		n.gates = append(n.gates, g)
		w.ev("yield-park n%d %s at %s", n.idx, info.role, point)
	} else {
		w.ys.loose = append(w.ys.loose, g)
		w.ev("yield-park at %s", point)
	}
	w.stats.Fault("preempted-at-sync-point")
	w.probe("yield-parked:" + pointKind(point))
	<-g.release
	if n := info.node; n != nil {
		n.removeGate(g)
		w.ev("yield-resume n%d %s", n.idx, info.role)
	} else {
		for i, x := range w.ys.loose {
			if x == g {
				w.ys.loose = append(w.ys.loose[:i], w.ys.loose[i+1:]...)
				break
			}
		}
		w.ev("yield-resume")
	}
}

func pointKind(point string) string {
	if i := strings.LastIndex(point, ":"); i >= 0 {
		return point[i+1:]
	}
	return point
}

// armYield: the count-th next scheduling point reached by a goroutine of the given role of node n parks.
func (w *World) armYield(n *Node, role string, count int, match string) {
	w.ys.arm = &yieldArm{node: n, role: role, count: count, match: match}
	if n != nil {
		w.ev("arm yield n%d %s in %d points %q", n.idx, role, count, match)
	} else {
		w.ev("arm yield %s in %d points %q", role, count, match)
	}
}

func (w *World) releaseLooseYields() bool {
	moved := false
	for _, g := range append([]*Gate(nil), w.ys.loose...) {
		select {
		case g.release <- GatePass:
			moved = true
		default:
		}
	}
	return moved
}

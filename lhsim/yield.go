package lhsim

import (
	"fmt"
	"os"
	"runtime"
	"strings"
	"sync"
)

// Scheduling points inserted into the library by tools/yieldinst (before every mutex acquisition, channel operation
// and select of the code as it stands in /repo's working tree). At such a point the harness may park the calling
// goroutine: a preemption. Preemptions are armed by a scheduler action ("the k-th next scheduling point reached by a
// goroutine of role R of node N parks"), i.e. they cost tape decisions only when used, and an unarmed point costs a
// pointer test. A parked goroutine is a Gate of its node (kind "yield"): every oracle that abstains while the node is
// inside a consumer call abstains here too, and the gate-release action / shutdown drain releases it.
//
// Nothing is parked while any library mutex is held (Held counter): sync.Mutex does not block durably in a bubble.

var debugYield = os.Getenv("SIM_DEBUG_YIELD") != ""

type goInfo struct {
	node *Node
	role string // "worker" | "api" | "timer"
}

type yieldArm struct {
	node  *Node // nil: any goroutine except the harness (component scenarios)
	role  string
	count int
	match   string // substring of the point label ("" = any)
	exclude string // substring the label must not contain ("" = none)
}

type yieldState struct {
	arm        *yieldArm
	mu         sync.Mutex
	heldBy     map[uint64]int
	harnessGid uint64
	roles      map[uint64]goInfo
	loose      []*Gate // parked goroutines that belong to no node (component scenarios)
	enabled    bool
	starting   *Node // the node whose loops are being started (to recognise its main-loop goroutine)
	quietBy    map[uint64]int // per goroutine: inside a harness section (wrapper / fake / oracle code) in which nothing may park
}

func goid() uint64 {
	var buf [40]byte
	n := runtime.Stack(buf[:], false)
	// "goroutine 123 ["
	var id uint64
	for i := len("goroutine "); i < n && buf[i] >= '0' && buf[i] <= '9'; i++ {
		id = id*10 + uint64(buf[i]-'0')
	}
	return id
}

func (w *World) enableYields() {
	w.ys.enabled = true
	w.ys.harnessGid = goid()
	if w.ys.roles == nil {
		w.ys.roles = map[uint64]goInfo{}
		w.ys.heldBy = map[uint64]int{}
		w.ys.quietBy = map[uint64]int{}
	}
}

// noteGoroutine records which node and role the calling goroutine belongs to (called from places that know:
// consumer-side fakes run on the worker, API goroutines are spawned by the harness).
func (w *World) noteGoroutine(n *Node, role string) {
	if !w.ys.enabled {
		return
	}
	id := goid()
	if id == w.ys.harnessGid {
		return
	}
	w.ys.mu.Lock()
	if _, ok := w.ys.roles[id]; !ok {
		w.ys.roles[id] = goInfo{n, role}
	}
	w.ys.mu.Unlock()
}

// atHeld keeps, per goroutine, the number of library mutexes it holds (only in runs that use preemption: the
// goroutine id costs about a microsecond). A global count would depend on what *other* goroutines happen to hold
// at that instant, i.e. on the Go scheduler.
// The count is kept only while a preemption is armed (a goroutine id costs 2-3 microseconds): arming happens at
// quiescent points, where no goroutine of this library holds a mutex (it never blocks durably under one), so counting
// starts from zero; a release of a mutex taken before arming is ignored.
func (w *World) atHeld(delta int) {
	if !w.ys.enabled || w.ys.arm == nil {
		return
	}
	id := goid()
	w.ys.mu.Lock()
	if c := w.ys.heldBy[id] + delta; c > 0 {
		w.ys.heldBy[id] = c
	} else {
		delete(w.ys.heldBy, id)
	}
	w.ys.mu.Unlock()
}

// quiet marks the calling goroutine as being inside harness code that calls into the library (a wrapper whose
// bookkeeping must stay atomic with the call it wraps, a fake or an oracle reading State()): no preemption there.
// It costs a goroutine id only while a preemption is armed (arming happens at quiescent points, when no library
// goroutine is inside such a section). Usage: defer w.quiet()().
func (w *World) quiet() func() {
	if !w.ys.enabled || w.ys.arm == nil {
		return func() {}
	}
	id := goid()
	w.ys.mu.Lock()
	w.ys.quietBy[id]++
	w.ys.mu.Unlock()
	return func() {
		w.ys.mu.Lock()
		w.ys.quietBy[id]--
		w.ys.mu.Unlock()
	}
}

func (w *World) holdsMutex(id uint64) bool {
	w.ys.mu.Lock()
	defer w.ys.mu.Unlock()
	return w.ys.heldBy[id] != 0 || w.ys.quietBy[id] != 0
}

func (w *World) atYield(point string) {
	if st := w.ys.starting; st != nil && w.ys.enabled && strings.Contains(point, "mainloop.go:MainLoop.run:") {
		// the node being started right now: the goroutine that reaches the main loop's select is its main loop
		if id := goid(); id != w.ys.harnessGid {
			w.ys.mu.Lock()
			if _, ok := w.ys.roles[id]; !ok {
				w.ys.roles[id] = goInfo{st, "main"}
			}
			w.ys.mu.Unlock()
		}
	}
	if debugYield && w.ys.enabled {
		id := goid()
		w.ys.mu.Lock()
		info := w.ys.roles[id]
		w.ys.mu.Unlock()
		if info.node != nil {
			fmt.Fprintf(os.Stderr, "   .. yield n%d %s %s\n", info.node.idx, info.role, point)
		}
	}
	a := w.ys.arm
	if a == nil {
		return
	}
	if a.match != "" && !strings.Contains(point, a.match) {
		return
	}
	if a.exclude != "" && strings.Contains(point, a.exclude) {
		return
	}
	isSelect := strings.HasSuffix(point, ":select")
	if isSelect && a.role != "main" && a.role != "api" {
		// Go picks at random among the ready cases of a select: parking a goroutine in front of one and letting the
		// world move on manufactures selects with several ready cases whose outcome no tape decision controls (the
		// worker's own select is under hook H1 instead). Exception: the main loop and API callers - while a main loop
		// is parked the harness hands the node nothing but UpdateState calls (one channel) and never cancels, so every
		// select it reaches at release has at most one ready case.
		return
	}
	id := goid()
	if id == w.ys.harnessGid {
		return
	}
	if w.holdsMutex(id) {
		return
	}
	w.ys.mu.Lock()
	info, known := w.ys.roles[id]
	if w.ys.arm != a || (a.node != nil && (!known || info.node != a.node)) || (a.role != "" && (!known || info.role != a.role)) {
		w.ys.mu.Unlock()
		return
	}
	a.count--
	if a.count > 0 {
		w.ys.mu.Unlock()
		return
	}
	w.ys.arm = nil
	w.ys.mu.Unlock()
	g := &Gate{node: info.node, kind: "yield", release: make(chan GateVerdict, 1), started: w.seq, ignoresCtx: true, role: info.role}
	if n := info.node; n != nil {
		g.height = n.height()
		g.ctx = n.ctx
		n.gates = append(n.gates, g)
		if info.role == "main" {
			// the main loop is busy (slow to come back to its select): callers of the API block meanwhile; the harness
			// hands it nothing but UpdateState calls until it is released (see forceReleaseMain)
			n.mainParked = g
			g.midEvent = w.stimNode == n || w.stimNode == nil && w.stimAny
			w.probe("main-loop-parked")
		}
		w.ev("yield-park n%d %s at %s", n.idx, info.role, point)
	} else {
		w.ys.loose = append(w.ys.loose, g)
		w.ev("yield-park at %s", point)
	}
	w.stats.Fault("preempted-at-sync-point")
	w.probe("yield-parked:" + pointKind(point))
	<-g.release
	if n := info.node; n != nil {
		n.removeGate(g)
		if n.mainParked == g {
			n.mainParked = nil
		}
		w.ev("yield-resume n%d %s", n.idx, info.role)
	} else {
		for i, x := range w.ys.loose {
			if x == g {
				w.ys.loose = append(w.ys.loose[:i], w.ys.loose[i+1:]...)
				break
			}
		}
		w.ev("yield-resume")
	}
}

func pointKind(point string) string {
	if i := strings.LastIndex(point, ":"); i >= 0 {
		return point[i+1:]
	}
	return point
}

// armYield: the count-th next scheduling point reached by a goroutine of the given role of node n parks.
func (w *World) armYield(n *Node, role string, count int, match string) {
	w.ys.mu.Lock()
	w.ys.heldBy = map[uint64]int{}
	w.ys.mu.Unlock()
	w.ys.arm = &yieldArm{node: n, role: role, count: count, match: match}
	if n != nil {
		w.ev("arm yield n%d %s in %d points %q", n.idx, role, count, match)
	} else {
		w.ev("arm yield %s in %d points %q", role, count, match)
	}
}

func (w *World) releaseLooseYields() bool {
	moved := false
	for _, g := range append([]*Gate(nil), w.ys.loose...) {
		select {
		case g.release <- GatePass:
			moved = true
		default:
		}
	}
	return moved
}

// forceReleaseMain: before the harness hands a parked main loop anything but an UpdateState call (a message, an
// election trigger, cancellation, a clock advance past the node's real timer) the main loop is released and comes to
// rest: with several of its channels ready at once its select would choose at random.
func (w *World) forceReleaseMain(n *Node) bool {
	g := n.mainParked
	if g == nil {
		return false
	}
	w.ev("main loop of n%d released (another stimulus is due)", n.idx)
	select {
	case g.release <- GatePass:
	default:
	}
	w.quiesce()
	w.pollPendingSyncs(n)
	return true
}

type pendingSync struct {
	done   chan error
	idx    int // index into n.updates
	th     uint64
	before hv
	epoch  int
}

// pollPendingSyncs: UpdateState calls that were blocked on a busy main loop and have returned since.
func (w *World) pollPendingSyncs(n *Node) {
	for len(n.pendingSyncs) > 0 {
		p := n.pendingSyncs[0]
		select {
		case e := <-p.done:
			n.pendingSyncs = n.pendingSyncs[1:]
			if p.epoch == n.epoch && p.idx < len(n.updates) {
				n.updates[p.idx].returned, n.updates[p.idx].err = true, e
				w.probe("blocked-updatestate-returned")
			}
		default:
			return
		}
	}
}

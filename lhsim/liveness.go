package lhsim

import (
	"bytes"
	"fmt"
)

// C05: liveness after stabilisation. Phase 1 is the ordinary adversarial NET prefix. Phase 2: no loss, partition
// or crash among correct nodes; every message among them is delivered before the scheduler lets any of their
// timers fire; timers fire at their nominal expiry base*2^view (one common base, no early / stale triggers);
// Byzantine members keep sending anything.

type liveHeight struct {
	h         uint64
	members   []*Node // D_h: correct nodes deciding h at the switch
	vmax      uint64
	bound     uint64
	firstView int64 // view of the first commit by a member (-1: none yet)
	hash      []byte
	done      bool
}

func genLivenessConfig(ch *Chooser, prop, tier string, disabled map[string]bool) *RunConfig {
	cfg := genNetConfig(ch, prop, tier, disabled)
	cfg.Shape = "NET-liveness"
	for i := range cfg.TimerBaseMs {
		cfg.TimerBaseMs[i] = cfg.TimerBaseMs[0] // one common base: the property's own timing premise
	}
	cfg.StabiliseAt = 1 + ch.Pick("stabilise-at", 300)
	if cfg.FaultFree {
		cfg.StabiliseAt = 1 + ch.Pick("stabilise-at-ff", 40)
	}
	cfg.MaxSteps = cfg.StabiliseAt + 30000
	return cfg
}

func (w *World) stabilise() {
	w.stabilised = true
	w.probe("stabilised")
	w.ev("STABILISED at step %d", w.step)
	w.blocked = map[[2]int]bool{}
	w.hold = nil
	w.cfg.Director = ""
	for _, n := range w.honest() {
		if n.alive && n.view() >= 20 {
			w.probe("liveness-abstained-view-cap")
			w.live = nil
			w.liveAbstain = true
			return
		}
	}
	byH := map[uint64][]*Node{}
	for _, n := range w.honest() {
		if n.alive && n.height() > 0 && n.correctAt(n.height()) && w.inCommittee(n.height(), n.id) {
			byH[n.height()] = append(byH[n.height()], n)
		}
	}
	for h, ms := range byH {
		ids := map[string]bool{}
		var vmax uint64
		for _, n := range ms {
			ids[string(n.id)] = true
			if n.view() > vmax {
				vmax = n.view()
			}
		}
		_, _, q := thresholds(w.Committee(h))
		if w.weightOf(h, ids) < q {
			continue // premise fails for this height: the correct nodes still deciding it are not a quorum
		}
		// a member that already committed h and failed to persist it (consumer error) is still "deciding" h but will
		// never run its callback again: such heights are not judged
		skip := false
		for _, n := range ms {
			for _, c := range n.obs.commits {
				if c.epoch == n.epoch && c.height == h {
					skip = true
				}
			}
		}
		if skip {
			continue
		}
		if len(ms) == 1 {
			// a single correct member whose weight alone is a quorum (input class of known finding KF3)
			if w.disabled("config.sole-decider-is-quorum") {
				w.probe("filtered:config.sole-decider-is-quorum")
				continue
			}
			w.use("config.sole-decider-is-quorum")
		}
		lh := &liveHeight{h: h, members: ms, vmax: vmax, bound: vmax + uint64(len(w.Committee(h))) + 3, firstView: -1}
		// the timing premise (exact doubling) must hold up to the bound: no saturation of the simulated timers
		if lh.bound+1 >= 40 || ms[0].timerBase<<(lh.bound+1) >= simTimeoutCap {
			w.probe("liveness-abstained-timeout-saturation")
			continue
		}
		w.live = append(w.live, lh)
		w.ev("liveness premise holds for h%d: %d correct members, highest view %d, view bound %d", h, len(ms), vmax, lh.bound)
	}
	if len(w.live) == 0 {
		w.probe("liveness-abstained-no-quorum-height")
		w.liveAbstain = true
	}
	// stable order
	for i := range w.live {
		for j := i + 1; j < len(w.live); j++ {
			if w.live[j].h < w.live[i].h {
				w.live[i], w.live[j] = w.live[j], w.live[i]
			}
		}
	}
	w.stableBudget = 4000 + 400*w.cfg.N*(w.cfg.N+3)
	w.stableStart = w.step
}

// stableStep performs one step of the stabilised phase; false ends the run.
func (w *World) stableStep() bool {
	if w.liveAbstain || w.timeUp {
		return false
	}
	w.judgeLiveness(false)
	if w.viol != nil {
		return false
	}
	allDone := true
	for _, lh := range w.live {
		if !lh.done {
			allDone = false
		}
	}
	if allDone {
		return false
	}
	if w.step-w.stableStart > w.stableBudget {
		for _, lh := range w.live {
			if !lh.done {
				w.violate("C05", "no-commit-within-step-bound", "h%d: %d fault-free, timely steps after stabilisation and no correct member committed (views %s)", lh.h, w.stableBudget, w.viewsOf(lh))
				return false
			}
		}
		return false
	}
	// Byzantine members keep sending anything
	if w.cfg.ByzPm > 0 && w.byzSteps*3 < (w.step-w.stableStart) && w.ch.Chance("stable-byz", w.cfg.ByzPm) {
		w.byzSteps++
		if w.adversaryStep() {
			return true
		}
	}
	// heights above the judged ones are of no interest: their traffic is discarded so that the run comes to rest
	var maxH uint64
	for _, lh := range w.live {
		if lh.h > maxH {
			maxH = lh.h
		}
	}
	keep := w.flights[:0]
	for _, f := range w.flights {
		if m := Decode(f.raw); m != nil && m.Height() > maxH && m.Height() < 1<<40 {
			continue
		}
		keep = append(keep, f)
	}
	w.flights = keep
	// messages among correct nodes first (any order), timers only when none of those is in flight; what Byzantine
	// members injected may arrive at any time and never holds a timer back
	var msgs, byz []*Flight
	for _, f := range w.flights {
		if f.tag == "" {
			msgs = append(msgs, f)
		} else {
			byz = append(byz, f)
		}
	}
	deliverOne := func(list []*Flight, label string) bool {
		k := len(list)
		if k > w.cfg.Window {
			k = w.cfg.Window
		}
		f := list[w.ch.Pick(label, k)]
		w.removeFlight(f)
		if !w.nodes[f.to].alive {
			return true
		}
		w.action("deliver")
		w.deliver(f)
		return true
	}
	if len(byz) > 0 && (len(msgs) == 0 || w.ch.Pick("stable-byz-first", 3) == 2) && w.ch.Pick("stable-byz-now", 2) == 1 {
		return deliverOne(byz, "stable-byz-ev")
	}
	if len(msgs) > 0 {
		return deliverOne(msgs, "stable-ev")
	}
	// quiet point: everything among correct nodes has been delivered
	w.judgeLiveness(true)
	if w.viol != nil {
		return false
	}
	var evs []pendingEvent
	for _, e := range w.pendingEvents() {
		if e.timer != nil {
			evs = append(evs, e)
		}
	}
	if len(evs) == 0 {
		for _, lh := range w.live {
			if !lh.done {
				w.violate("C05", "stuck-without-timers", "h%d: no message in flight, no timer armed, nobody committed (views %s)", lh.h, w.viewsOf(lh))
			}
		}
		return false
	}
	e := evs[0]
	if !e.real && !e.wake {
		w.advanceTo(e.at)
	}
	w.fireAny(&e)
	return true
}

func (w *World) viewsOf(lh *liveHeight) string {
	s := ""
	for _, n := range lh.members {
		x := n.hv()
		s += fmt.Sprintf("n%d:(h%d,v%d) ", n.idx, x.h, x.v)
	}
	return s
}

func (w *World) judgeLiveness(quiet bool) {
	for _, lh := range w.live {
		if lh.done {
			continue
		}
		if lh.firstView < 0 {
			for _, n := range lh.members {
				for _, c := range n.obs.commits {
					if c.epoch == n.epoch && c.height == lh.h && lh.firstView < 0 {
						v, hash, ok := proofView(c.proof)
						if ok {
							lh.firstView, lh.hash = int64(v), hash
							w.ev("liveness: h%d first committed by n%d in view %d", lh.h, n.idx, v)
						}
					}
				}
			}
		}
		if lh.firstView < 0 {
			// (i) some member commits before the views rise beyond the bound
			for _, n := range lh.members {
				if x := n.hv(); x.h == lh.h && x.v > lh.bound {
					w.violate("C05", "no-commit-within-view-bound", "h%d: correct members of quorum weight were deciding it at stabilisation (highest view %d); n%d has now reached view %d (> bound %d) and none of them has committed (views %s)", lh.h, lh.vmax, n.idx, x.v, lh.bound, w.viewsOf(lh))
					return
				}
			}
			continue
		}
		if !quiet {
			continue
		}
		if uint64(lh.firstView) <= lh.vmax {
			// the deciding view began before stabilisation: messages of that view lost earlier are outside the premise
			lh.done = true
			w.probe("liveness-judged")
			w.probe("liveness-decided-in-old-view")
			continue
		}
		// (ii) concerns a view led by a correct member that was joined by correct members of quorum weight: in a
		// Byzantine-led view, or when the acceptors need Byzantine help to reach the quorum, selective sending can
		// legitimately let only some of them decide
		ld := w.keys.IdxOf(w.leader(lh.h, uint64(lh.firstView)))
		accW := map[string]bool{}
		for _, n := range lh.members {
			for _, s := range n.obs.sends {
				m := s.msg
				if m != nil && s.epoch == n.epoch && m.Height() == lh.h && (m.Kind == KP || m.Kind == KPP || m.Kind == KNV) && m.Ref.V == uint64(lh.firstView) && bytes.Equal(m.Ref.Hash, lh.hash) {
					accW[string(n.id)] = true
				}
			}
		}
		_, _, q := thresholds(w.Committee(lh.h))
		if ld < 0 || w.isByz(ld) || w.weightOf(lh.h, accW) < q {
			lh.done = true
			w.probe("liveness-judged")
			w.probe("liveness-decided-with-byzantine-help")
			continue
		}
		for _, n := range lh.members {
			accepted := false
			for _, s := range n.obs.sends {
				m := s.msg
				if m == nil || s.epoch != n.epoch || m.Height() != lh.h {
					continue
				}
				if (m.Kind == KP || m.Kind == KPP || m.Kind == KNV) && m.Ref.V == uint64(lh.firstView) && bytes.Equal(m.Ref.Hash, lh.hash) {
					accepted = true
				}
			}
			if !accepted {
				continue
			}
			committed := false
			for _, c := range n.obs.commits {
				if c.epoch == n.epoch && c.height == lh.h {
					committed = true
				}
			}
			if !committed {
				w.violate("C05", "acceptor-did-not-commit", "h%d was committed in view %d; n%d accepted that view's proposal, every message among correct nodes has been delivered, and it has not committed", lh.h, lh.firstView, n.idx)
				return
			}
		}
		lh.done = true
		w.probe("liveness-judged")
	}
}

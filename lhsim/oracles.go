package lhsim

import (
	"bytes"
	"context"
	"fmt"

	"github.com/orbs-network/lean-helix-go/services/interfaces"
	"github.com/orbs-network/lean-helix-go/spec/types/go/primitives"
	"github.com/orbs-network/lean-helix-go/spec/types/go/protocol"
)

// Oracle hooks. Each oracle fires only on a state its property forbids under the property's own premises;
// where a premise cannot be established the oracle abstains.

// correctAt: the node counts as correct for height h (not Byzantine, did not lose its votes for h).
func (n *Node) correctAt(h uint64) bool { return !n.byz && !n.amnesiac[h] }

func (n *Node) deliveredThisEpoch() []*DeliveredRec {
	var out []*DeliveredRec
	for _, d := range n.obs.delivered {
		if d.epoch == n.epoch {
			out = append(out, d)
		}
	}
	return out
}

func (n *Node) sendsThisEpoch() []*SentRec {
	var out []*SentRec
	for _, s := range n.obs.sends {
		if s.epoch == n.epoch {
			out = append(out, s)
		}
	}
	return out
}

// hasProposal: delivered(n) (this epoch) or n's own sends contain a proposal (standalone PREPREPARE or the
// one embedded in a NEW_VIEW) for (h, v, hash) validly signed by leader_h(v).
func (w *World) hasProposal(n *Node, h, v uint64, hash []byte) bool {
	ok := func(m *Msg) bool {
		if m == nil || (m.Kind != KPP && m.Kind != KNV) {
			return false
		}
		if m.Ref.H != h || m.Ref.V != v || !bytes.Equal(m.Ref.Hash, hash) {
			return false
		}
		s := m.Sender
		if m.Kind == KNV {
			s = m.PPSender
		}
		return w.isLeader(s.Id, h, v) && w.sigOK(s, h, m.Ref.Raw)
	}
	for _, d := range n.deliveredThisEpoch() {
		if ok(d.msg) {
			return true
		}
	}
	for _, s := range n.sendsThisEpoch() {
		if ok(s.msg) {
			return true
		}
	}
	return false
}

// ---------------------------------------------------------------------------------------------
// Commit: C01, C03, C04, C13

func (w *World) onCommitObserved(n *Node, c *commitRec) {
	h := c.height
	if !n.correctAt(h) {
		return
	}
	w.probe("commit")
	if c.block == nil {
		w.violate("C04", "nil-block-committed", "n%d got a nil / foreign block in its commit callback at h%d", n.idx, h)
		return
	}
	// C01 agreement
	if first, ok := w.firstCommit[h]; ok {
		if !bytes.Equal(first.block.Hash(), c.block.Hash()) {
			w.violate("C01", "agreement", "h%d: n%d committed %s but n%d committed %s", h, w.firstCommitBy[h], first.block, n.idx, c.block)
		}
	} else {
		w.firstCommit[h] = c
		w.firstCommitBy[h] = n.idx
	}
	// C13 commit heights strictly increase (per instance)
	var prev *commitRec
	for i := len(n.obs.commits) - 2; i >= 0; i-- {
		if n.obs.commits[i].epoch == n.epoch {
			prev = &n.obs.commits[i]
			break
		}
	}
	if prev != nil && prev.height >= h {
		w.violate("C13", "commit-heights-increase", "n%d: commit callback for h%d after h%d", n.idx, h, prev.height)
	}
	w.checkC03(n, c)
	w.checkC04(n, c)
}

func proofView(proof []byte) (v uint64, hash []byte, ok bool) {
	defer func() {
		if r := recover(); r != nil {
			ok = false
		}
	}()
	p := protocol.BlockProofReader(proof)
	r := p.BlockRef()
	return uint64(r.View()), cp(r.BlockHash()), true
}

func (w *World) checkC03(n *Node, c *commitRec) {
	if !w.checks("C03") {
		return
	}
	h := c.height
	// (b) reference predicate
	if ok, why := w.refBlockProof(c.block, c.proof, false); !ok {
		w.violate("C03", "committed-proof-invalid/"+classifyWhy(why), "n%d committed %s at h%d with a proof the reference predicate rejects: %s", n.idx, c.block, h, why)
		return
	}
	// (a) the real strict validator of another correct node with the same committee and previous proof
	var prevB interfaces.Block
	var prevP []byte
	if h > 1 {
		sb, ok := n.store[h-1]
		if !ok {
			return // the node entered this height by a path the harness did not record; abstain
		}
		prevB, prevP = sb.block, sb.proof
	}
	for _, j := range w.honest() {
		if j == n || !j.alive {
			continue
		}
		var err error
		func() {
			defer func() {
				if r := recover(); r != nil {
					err = fmt.Errorf("panic: %v", r)
				}
			}()
			defer w.quiet()() // oracle code running on a library goroutine (inside the commit callback)
			err = j.lh.ValidateBlockConsensus(context.Background(), c.block, c.proof, prevB, prevP, false)
		}()
		w.probe("c03-cross-validated")
		if err != nil {
			w.violate("C03", "peer-rejects-committed-pair", "n%d committed %s at h%d but strict ValidateBlockConsensus on n%d says: %v", n.idx, c.block, h, j.idx, err)
		}
		return
	}
}

func classifyWhy(why string) string {
	switch {
	case containsStr(why, "outside committee"):
		return "outsider-signer"
	case containsStr(why, "hash does not commit"):
		return "hash-mismatch"
	case containsStr(why, "signature invalid"):
		return "bad-signature"
	case containsStr(why, "weight"):
		return "weight"
	case containsStr(why, "duplicate"):
		return "duplicate-signer"
	}
	return "other"
}

func (w *World) checkC04(n *Node, c *commitRec) {
	if !w.checks("C04") {
		return
	}
	h := c.height
	b := c.block
	if b.H != h {
		w.violate("C04", "height-mismatch", "n%d committed block of height %d in the callback for h%d", n.idx, b.H, h)
		return
	}
	v, hash, ok := proofView(c.proof)
	if !ok {
		return // C03's business
	}
	if !bytes.Equal(hash, b.Hash()) {
		w.violate("C04", "hash-mismatch", "n%d committed %s but the certificate is for hash %x", n.idx, b, hash)
		return
	}
	if !w.hasProposal(n, h, v, hash) {
		w.violate("C04", "no-leader-proposal", "n%d committed %s (view %d) but never received a PREPREPARE for it signed by the leader of that view", n.idx, b, v)
		return
	}
	if b.Poison {
		w.violate("C04", "poison-committed", "n%d committed %s which every correct validator rejects", n.idx, b)
		return
	}
	// approved by the consumer of at least one correct member at that height
	if p, ok := w.producedBy[string(b.Hash())]; ok && !w.isByz(p) {
		return
	}
	for _, x := range w.honest() {
		for _, val := range x.obs.validations {
			if val.ok && val.height == h && bytes.Equal(val.hash, b.Hash()) {
				return
			}
		}
	}
	w.violate("C04", "not-consumer-approved", "n%d committed %s which no correct member's ValidateBlockProposal approved and no correct leader produced", n.idx, b)
}

// ---------------------------------------------------------------------------------------------
// New round, registrations: C13, C14

func (w *World) onNewRoundObserved(n *Node, h uint64, first bool) {
	var prev *newRoundRec
	cnt := 0
	for i := len(n.obs.newRounds) - 2; i >= 0; i-- {
		if n.obs.newRounds[i].epoch == n.epoch {
			if prev == nil {
				prev = &n.obs.newRounds[i]
			}
			cnt++
		}
	}
	if w.checks("C14") {
		w.checkSyncedRoundFlag(n, h, first)
	}
	if prev != nil && prev.height >= h {
		w.violate("C13", "round-heights-increase", "n%d: new-round callback for h%d after h%d", n.idx, h, prev.height)
	}
	// a commit callback for height c is only ever followed by rounds for heights above c
	for _, c := range n.obs.commits {
		if c.epoch == n.epoch && !c.failed && c.height >= h {
			w.violate("C13", "round-after-commit", "n%d: new round for h%d after the commit callback for h%d", n.idx, h, c.height)
		}
	}
}

func (w *World) onRegister(n *Node, h, v uint64) {
	if v > w.stats.MaxView {
		w.stats.MaxView = v
	}
	if v > 0 {
		w.probe("view-change")
	}
	regs := n.obs.registrations
	k := len(regs)
	// registrations of this instance only
	if k >= 2 && n.regEpochStart < k-1 {
		p := regs[k-2]
		cur := regs[k-1]
		if cur.less(p) {
			w.violate("C13", "registration-monotone", "n%d registered (h%d,v%d) after (h%d,v%d)", n.idx, cur.h, cur.v, p.h, p.v)
		}
		if cur.h > p.h && cur.v != 0 {
			w.violate("C13", "view-reset", "n%d entered h%d at view %d, not 0", n.idx, cur.h, cur.v)
		}
	} else if v != 0 {
		w.violate("C13", "view-reset", "n%d's first registration is (h%d,v%d)", n.idx, h, v)
	}
}

func (w *World) onTimerFired(n *Node, r *registration) {}

// sampled at every quiescent point
func (w *World) checkQuiescentInvariants() {
	for _, n := range w.nodes {
		if n.byz || !n.alive || n.lh == nil {
			continue
		}
		cur := n.hv()
		if n.lastSampleEpoch == n.epoch && cur.less(n.lastSample) {
			w.violate("C13", "state-monotone", "n%d State() went from (h%d,v%d) to (h%d,v%d)", n.idx, n.lastSample.h, n.lastSample.v, cur.h, cur.v)
		}
		if n.lastSampleEpoch == n.epoch && cur.h > n.lastSample.h && cur.v != 0 && n.lastSample.h != 0 {
			// the view may already have advanced within the same step only through registrations, which are checked separately
		}
		n.lastSample, n.lastSampleEpoch = cur, n.epoch
		// the node announces every round it starts: once it is settled, the height it reports is the height of the
		// last round it announced (a height entered without a round means messages of that height meet the term of
		// another one)
		if w.checks("C13") && !n.shuttingDown && n.settled() && n.mainParked == nil && len(n.pendingSyncs) == 0 {
			var last *newRoundRec
			for i := len(n.obs.newRounds) - 1; i >= 0; i-- {
				if n.obs.newRounds[i].epoch == n.epoch {
					last = &n.obs.newRounds[i]
					break
				}
			}
			if last != nil && cur.h != last.height {
				w.violate("C13", "height-without-round", "n%d reports height %d while the last round it announced is for height %d", n.idx, cur.h, last.height)
			}
		}
		// snapshots taken by a concurrent consumer thread: the state only moves forward, so a snapshot lies between the
		// state at the moment the call was started and the state at the first quiescent point after it returned
		for _, r := range n.samples {
			if !r.done || r.checked || r.epoch != n.epoch {
				continue
			}
			r.checked = true
			w.probe("api-snapshot-judged")
			if r.val.less(r.pre) {
				w.violate("C13", "snapshot-older-than-state-at-call", "n%d: a consumer thread called State().HeightView() when the node was at (h%d,v%d) and got (h%d,v%d)", n.idx, r.pre.h, r.pre.v, r.val.h, r.val.v)
			} else if cur.less(r.val) {
				w.violate("C13", "snapshot-ahead-of-state", "n%d: a consumer thread got (h%d,v%d) from State().HeightView() but the node is only at (h%d,v%d) after the call returned", n.idx, r.val.h, r.val.v, cur.h, cur.v)
			}
		}
	}
	w.checkGates()
	w.checkSyncs()
	w.checkDueTriggers()
}

func (w *World) finalChecks() {}

// ---------------------------------------------------------------------------------------------
// Sends: C09, C10, C07 (leader side)

type hvk struct {
	h, v uint64
	k    Kind
}

func (w *World) onSendObserved(n *Node, s *SentRec) {
	m := s.msg
	if m == nil {
		w.violate("C12", "undecodable-output", "n%d sent bytes the wire decoders cannot read", n.idx)
		return
	}
	h, v := m.Height(), m.View()
	if !n.correctAt(h) {
		return
	}
	if w.checks("C10") {
		w.checkC10(n, s, m, h, v)
	}
	if w.checks("C18") && m.Kind == KVC {
		// in the middle of real protocol traffic too: the vote for view v goes to the member at (v mod n), whatever the
		// node has processed before (the committee order is a fixed input of the term)
		c := w.Committee(h)
		target := c[v%uint64(len(c))].Id
		w.probe("leader-judged")
		if len(s.to) != 1 || s.to[0] != w.keys.IdxOf(target) {
			w.violate("C18", "timeout-vote-destination", "n=%d: the vote of n%d for (h%d, view %d) went to %v, the member at (view mod n)=%d is %s (n%d)", len(c), n.idx, h, v, s.to, v%uint64(len(c)), string(target), w.keys.IdxOf(target))
		}
	}
	if w.checks("C18") && (m.Kind == KPP || m.Kind == KNV) && w.inCommittee(h, n.id) {
		c := w.Committee(h)
		pv := m.Ref.V
		if m.Kind == KNV {
			pv = m.NVV
		}
		w.probe("leader-judged")
		if !c[pv%uint64(len(c))].Id.Equal(n.id) {
			w.violate("C18", "proposal-by-non-leader", "n=%d: n%d proposed for (h%d, view %d) although the member at (view mod n)=%d is %s", len(c), n.idx, h, pv, pv%uint64(len(c)), string(c[pv%uint64(len(c))].Id))
		}
	}
	if w.checks("C14") {
		w.checkSyncedRoundNotLed(n, s)
	}
	if w.checks("C15") {
		w.checkLateProposal(n, s)
	}
	if w.checks("C09") {
		w.checkC09(n, s, m, h, v)
	}
	if m.Kind == KNV && w.checks("C07") {
		if ok, _, why := w.refNewView(m, h, v); !ok {
			w.violate("C07", "leader-proposes-without-certificate/"+classifyNV(why), "n%d sent NEW_VIEW (h%d,v%d) that is not a valid certificate: %s", n.idx, h, v, why)
		}
	}
	if m.Kind == KP && v > 0 && w.checks("C07") {
		w.checkC07Act(n, h, v, m.Ref.Hash, "sent PREPARE")
	}
}

func classifyNV(why string) string {
	switch {
	case containsStr(why, "highest prepared proof"):
		return "ignores-lock"
	case containsStr(why, "vote of"):
		return "invalid-vote"
	case containsStr(why, "quorum"):
		return "no-quorum"
	case containsStr(why, "attached block"):
		return "block-mismatch"
	case containsStr(why, "duplicate"):
		return "duplicate-voter"
	}
	return "other"
}

func (w *World) checkC10(n *Node, s *SentRec, m *Msg, h, v uint64) {
	if n.sentHash == nil {
		n.sentHash = map[hvk][]byte{}
		n.lastVC = map[uint64]uint64{}
	}
	once := func(k Kind, what string) {
		key := hvk{h, v, k}
		if prev, ok := n.sentHash[key]; ok {
			if !bytes.Equal(prev, m.Ref.Hash) {
				w.violate("C10", "equivocation/"+what, "n%d signed two %s hashes for (h%d,v%d): %x and %x", n.idx, what, h, v, prev, m.Ref.Hash)
			}
		} else {
			n.sentHash[key] = cp(m.Ref.Hash)
		}
	}
	cur := n.regView(h)
	switch m.Kind {
	case KPP, KNV:
		once(KPP, "proposal")
		if !w.isLeader(n.id, h, v) {
			w.violate("C10", "proposal-by-non-leader", "n%d proposed in (h%d,v%d) which it does not lead", n.idx, h, v)
		}
		if cur.ok && v < cur.v {
			w.violate("C10", "proposal-in-old-view", "n%d sent a proposal for (h%d,v%d) after moving to view %d", n.idx, h, v, cur.v)
		}
	case KP:
		once(KP, "PREPARE")
		if w.isLeader(n.id, h, v) {
			w.violate("C10", "prepare-by-leader", "n%d sent PREPARE in (h%d,v%d) which it leads", n.idx, h, v)
		}
		if !w.hasProposal(n, h, v, m.Ref.Hash) {
			w.violate("C10", "prepare-without-proposal", "n%d sent PREPARE (h%d,v%d,%x) without having received that proposal from the leader", n.idx, h, v, m.Ref.Hash)
		}
		if cur.ok && v < cur.v {
			w.violate("C10", "prepare-in-old-view", "n%d sent PREPARE for (h%d,v%d) after moving to view %d", n.idx, h, v, cur.v)
		}
	case KC:
		once(KC, "COMMIT")
		if !w.commitJustified(n, h, v, m.Ref.Hash) {
			w.violate("C10", "commit-without-certificate", "n%d sent COMMIT (h%d,v%d,%x) holding neither a prepared certificate nor a commit quorum for it", n.idx, h, v, m.Ref.Hash)
		}
	case KVC:
		if last, ok := n.lastVC[h]; ok && v <= last {
			w.violate("C10", "vote-views-increase", "n%d sent VIEW_CHANGE for (h%d,v%d) after one for view %d", n.idx, h, v, last)
		}
		n.lastVC[h] = v
	}
}

type regView struct {
	v  uint64
	ok bool
}

// regView: the highest view the node registered for height h in this instance.
func (n *Node) regView(h uint64) regView {
	var out regView
	for i := n.regEpochStart; i < len(n.obs.registrations); i++ {
		r := n.obs.registrations[i]
		if r.h == h && (!out.ok || r.v > out.v) {
			out = regView{r.v, true}
		}
	}
	return out
}

// commitJustified: delivered(n) ∪ own messages contain the proposal (h,v,x) plus either authentic PREPAREs from
// distinct non-leader members reaching Q together with the leader, or authentic COMMITs reaching Q.
func (w *World) commitJustified(n *Node, h, v uint64, hash []byte) bool {
	if !w.hasProposal(n, h, v, hash) {
		return false
	}
	_, _, q := thresholds(w.Committee(h))
	prep := map[string]bool{string(w.leader(h, v)): true}
	comm := map[string]bool{}
	seedC := w.seedContent(h)
	consider := func(m *Msg) {
		if m == nil || m.Ref.H != h || m.Ref.V != v || !bytes.Equal(m.Ref.Hash, hash) || m.Ref.Instance != w.instance {
			return
		}
		switch m.Kind {
		case KP:
			if m.Ref.Type == protocol.LEAN_HELIX_PREPARE && w.inCommittee(h, m.Sender.Id) && !w.isLeader(m.Sender.Id, h, v) && w.sigOK(m.Sender, h, m.Ref.Raw) {
				prep[string(m.Sender.Id)] = true
			}
		case KC:
			if m.Ref.Type == protocol.LEAN_HELIX_COMMIT && w.inCommittee(h, m.Sender.Id) && w.sigOK(m.Sender, h, m.Ref.Raw) && w.keys.SeedShareValid(m.Sender.Id, h, seedC, m.Share) {
				comm[string(m.Sender.Id)] = true
			}
		}
	}
	for _, d := range n.deliveredThisEpoch() {
		consider(d.msg)
	}
	for _, s := range n.sendsThisEpoch() {
		consider(s.msg)
	}
	return w.weightOf(h, prep) >= q || w.weightOf(h, comm) >= q
}

func (w *World) checkC09(n *Node, s *SentRec, m *Msg, h, v uint64) {
	switch m.Kind {
	case KVC:
		pr := m.Vote.Proof
		if pr.Present {
			w.probe("lock-carried")
			if ok, why := w.refProof(pr, h, v); !ok {
				w.violate("C09", "vote-proof-invalid", "n%d sent VIEW_CHANGE (h%d,v%d) with an invalid prepared proof: %s", n.idx, h, v, why)
				return
			}
			if m.Block == nil || !bytes.Equal(m.Block.Hash(), pr.PP.Hash) {
				w.violate("C09", "vote-block-missing", "n%d sent VIEW_CHANGE (h%d,v%d) whose block %s does not match the proof hash %x", n.idx, h, v, m.Block, pr.PP.Hash)
				return
			}
		}
		// (b) proof views are non-decreasing over successive votes at h
		if n.lastProofView == nil {
			n.lastProofView = map[uint64]int64{}
		}
		pv := int64(-1)
		if pr.Present {
			pv = int64(pr.PP.V)
		}
		if last, ok := n.lastProofView[h]; ok && pv < last {
			w.violate("C09", "lock-dropped", "n%d's vote for (h%d,v%d) carries proof view %d after an earlier vote carried %d", n.idx, h, v, pv, last)
		}
		n.lastProofView[h] = pv
		// (c) prepared earlier (it sent COMMIT) and still deciding h
		committedHere := false
		for _, c := range n.obs.commits {
			if c.epoch == n.epoch && c.height == h {
				committedHere = true
			}
		}
		if !committedHere {
			for _, x := range n.sendsThisEpoch() {
				if x.msg != nil && x.msg.Kind == KC && x.msg.Ref.H == h && x.msg.Ref.V < v {
					p := x.msg.Ref.V
					if !pr.Present || pr.PP.V < p || (pr.PP.V == p && !bytes.Equal(pr.PP.Hash, x.msg.Ref.Hash)) {
						w.violate("C09", "lock-not-carried", "n%d sent COMMIT (h%d,v%d,%x) and later a VIEW_CHANGE for view %d that does not carry that lock (proof present=%v view=%d)", n.idx, h, p, x.msg.Ref.Hash, v, pr.Present, pr.PP.V)
						return
					}
				}
			}
		}
	case KNV:
		w.probe("honest-new-view")
		ids := map[string]bool{}
		var best *Vote
		for _, vt := range m.Votes {
			if ids[string(vt.Sender.Id)] {
				w.violate("C09", "nv-duplicate-vote", "n%d's NEW_VIEW (h%d,v%d) embeds two votes of %s", n.idx, h, v, string(vt.Sender.Id))
				return
			}
			ids[string(vt.Sender.Id)] = true
			if vt.Sender.Id.Equal(n.id) {
				if !w.sigOK(vt.Sender, h, vt.HeaderRaw) || vt.H != h || vt.V != v {
					w.violate("C09", "nv-own-vote-bad", "n%d's NEW_VIEW (h%d,v%d) embeds a malformed own vote", n.idx, h, v)
					return
				}
			} else {
				found := false
				for _, d := range n.deliveredThisEpoch() {
					if d.msg != nil && d.msg.Kind == KVC && d.msg.Vote != nil && sameVote(d.msg.Vote, vt) && d.msg.Vote.H == h && d.msg.Vote.V == v {
						found = true
						break
					}
				}
				if !found {
					w.violate("C09", "nv-vote-not-received", "n%d's NEW_VIEW (h%d,v%d) embeds a vote of %s it never received in that form", n.idx, h, v, string(vt.Sender.Id))
					return
				}
			}
			if vt.Proof.Present && (best == nil || vt.Proof.PP.V > best.Proof.PP.V) {
				best = vt
			}
		}
		_, _, q := thresholds(w.Committee(h))
		if w.weightOf(h, ids) < q {
			w.violate("C09", "nv-no-quorum", "n%d sent NEW_VIEW (h%d,v%d) with votes of weight %d < %d", n.idx, h, v, w.weightOf(h, ids), q)
			return
		}
		quietDone := w.quiet()
		stored, ok := n.st.inner.GetViewChangeMessages(primitives.BlockHeight(h), primitives.View(v))
		quietDone()
		if ok && len(stored) != len(m.Votes) {
			w.violate("C09", "nv-votes-not-all-counted", "n%d sent NEW_VIEW (h%d,v%d) with %d votes but had stored %d", n.idx, h, v, len(m.Votes), len(stored))
			return
		}
		if best != nil {
			if !bytes.Equal(best.Proof.PP.Hash, m.Ref.Hash) || m.Block == nil || !bytes.Equal(m.Block.Hash(), m.Ref.Hash) {
				w.violate("C09", "nv-ignores-lock", "n%d's NEW_VIEW (h%d,v%d) proposes %x / %s although the highest prepared proof among its votes (view %d) certifies %x", n.idx, h, v, m.Ref.Hash, m.Block, best.Proof.PP.V, best.Proof.PP.Hash)
			}
			return
		}
		// fresh block: must be the one requested from the consumer in this very step
		fresh := false
		for _, p := range n.obs.proposals {
			if p.step == w.step && p.epoch == n.epoch && bytes.Equal(p.hash, m.Ref.Hash) {
				fresh = true
			}
		}
		if !fresh || m.Block == nil || !bytes.Equal(m.Block.Hash(), m.Ref.Hash) {
			w.violate("C09", "nv-fresh-block-origin", "n%d's NEW_VIEW (h%d,v%d) proposes %x which it did not just obtain from RequestNewBlockProposal", n.idx, h, v, m.Ref.Hash)
		}
	}
}

// ---------------------------------------------------------------------------------------------
// C07: acting in a view above 0

// checkC07Act: node n adopted proposal (h, v>0, hash) — it must have received a valid NEW_VIEW for exactly (h, v).
func (w *World) checkC07Act(n *Node, h, v uint64, hash []byte, what string) {
	if v == 0 || !n.correctAt(h) {
		return
	}
	key := fmt.Sprintf("%d/%d/%x", h, v, hash)
	if n.c07done == nil {
		n.c07done = map[string]bool{}
	}
	if n.c07done[key] {
		return
	}
	n.c07done[key] = true
	if w.isLeader(n.id, h, v) {
		return // leader side is judged on its NEW_VIEW
	}
	var whyNot []string
	for _, d := range n.deliveredThisEpoch() {
		m := d.msg
		if m == nil || m.Kind != KNV || m.NVH != h || m.NVV != v {
			continue
		}
		ok, fresh, why := w.refNewView(m, h, v)
		if !ok {
			if bytes.Equal(m.Ref.Hash, hash) {
				whyNot = append([]string{why}, whyNot...)
			} else {
				whyNot = append(whyNot, why)
			}
			continue
		}
		if !bytes.Equal(m.Ref.Hash, hash) {
			whyNot = append(whyNot, "valid certificate proposes another hash")
			continue
		}
		if fresh {
			approved := false
			for _, val := range n.obs.validations {
				if val.epoch == n.epoch && val.ok && val.height == h && bytes.Equal(val.hash, hash) {
					approved = true
				}
			}
			if !approved {
				w.violate("C07", "fresh-block-not-validated", "n%d %s for (h%d,v%d,%x): the NEW_VIEW carries no proof and the node's ValidateBlockProposal did not approve the block", n.idx, what, h, v, hash)
				return
			}
		}
		w.probe("new-view-accepted")
		return
	}
	// classify: which input made it act?
	class := "no-new-view"
	for _, d := range n.deliveredThisEpoch() {
		m := d.msg
		if m != nil && m.Kind == KPP && m.Ref.H == h && m.Ref.V == v && bytes.Equal(m.Ref.Hash, hash) {
			class = "standalone-preprepare"
		}
	}
	if class == "no-new-view" && len(whyNot) > 0 {
		class = "invalid-new-view/" + classifyNV(whyNot[0])
	}
	w.violate("C07", "act-without-certificate/"+class, "n%d %s for (h%d,v%d,%x) without having received a valid NEW_VIEW for exactly that view (%v)", n.idx, what, h, v, hash, whyNot)
}

// ---------------------------------------------------------------------------------------------
// Stores: C07 (adoption), C08 (A)

func msgIdent(msg interface{}) (k Kind, h, v uint64, hash []byte, sender primitives.MemberId, sig []byte) {
	switch m := msg.(type) {
	case *interfaces.PreprepareMessage:
		r := m.Content().SignedHeader()
		return KPP, uint64(r.BlockHeight()), uint64(r.View()), cp(r.BlockHash()), cp(m.SenderMemberId()), cp(m.Content().Sender().Signature())
	case *interfaces.PrepareMessage:
		r := m.Content().SignedHeader()
		return KP, uint64(r.BlockHeight()), uint64(r.View()), cp(r.BlockHash()), cp(m.SenderMemberId()), cp(m.Content().Sender().Signature())
	case *interfaces.CommitMessage:
		r := m.Content().SignedHeader()
		return KC, uint64(r.BlockHeight()), uint64(r.View()), cp(r.BlockHash()), cp(m.SenderMemberId()), cp(m.Content().Sender().Signature())
	case *interfaces.ViewChangeMessage:
		r := m.Content().SignedHeader()
		return KVC, uint64(r.BlockHeight()), uint64(r.View()), nil, cp(m.SenderMemberId()), cp(m.Content().Sender().Signature())
	}
	return KNone, 0, 0, nil, nil, nil
}

func (w *World) onStore(n *Node, kind string, msg interface{}, ok bool) {
	k, h, v, hash, sender, sig := msgIdent(msg)
	n.obs.stores = append(n.obs.stores, storeRec{seq: w.seq, step: w.step, kind: kind, h: h, v: v, hash: hash, sender: sender, ok: ok, epoch: n.epoch})
	w.ev("store n%d %s h%d v%d %x from %s ok=%v", n.idx, kind, h, v, hash, string(sender), ok)
	if !ok || !n.correctAt(h) {
		return
	}
	own := sender.Equal(n.id)
	if k == KPP && v > 0 && !own && w.checks("C07") {
		w.checkC07Act(n, h, v, hash, "stored a proposal")
	}
	if !own && w.checks("C08") {
		if cur := n.height(); cur != h {
			w.violate("C08", "inauthentic-stored/"+k.String()+"/other-height", "n%d, deciding h%d, stored %s (h%d,v%d) claimed by %s: a message influences a node only at the height it is for", n.idx, cur, k, h, v, string(sender))
		}
		w.checkC08Store(n, k, h, v, hash, sender, sig)
	}
	if !own && w.checks("C18") && h == n.height() {
		c := w.Committee(h)
		ld := c[v%uint64(len(c))].Id
		switch k {
		case KPP: // a foreign proposal is accepted only from the member at (view mod n)
			w.probe("leader-judged")
			if !ld.Equal(sender) {
				w.violate("C18", "pp-leader-mismatch", "n=%d: n%d stored a proposal for (h%d, view %d) from %s, the member at (view mod n)=%d is %s", len(c), n.idx, h, v, string(sender), v%uint64(len(c)), string(ld))
			}
		case KVC: // a vote is counted only by the member at (view mod n)
			w.probe("leader-judged")
			if !ld.Equal(n.id) {
				w.violate("C18", "vc-leader-mismatch", "n=%d: n%d stored a vote for (h%d, view %d) although the member at (view mod n)=%d is %s", len(c), n.idx, h, v, v%uint64(len(c)), string(ld))
			}
		case KP: // the member at (view mod n) never prepares its own proposal: its PREPARE is not counted, for any view
			w.probe("leader-judged")
			if ld.Equal(sender) {
				w.violate("C18", "prepare-of-leader-counted", "n=%d: n%d stored a PREPARE for (h%d, view %d) from %s, who is the member at (view mod n)=%d", len(c), n.idx, h, v, string(sender), v%uint64(len(c)))
			}
		}
	}
}

// staticAuth: the time-independent part of the C08 predicate for a message of kind k as delivered.
func (w *World) staticAuth(n *Node, m *Msg) (bool, string) {
	if m == nil {
		return false, "undecodable"
	}
	h, v := m.Height(), m.View()
	if m.Instance() != w.instance {
		return false, "foreign instance"
	}
	if m.HeaderType() != m.Kind.wireType() {
		return false, "signed header carries another message type"
	}
	if !w.inCommittee(h, m.Sender.Id) {
		return false, "sender outside committee"
	}
	switch m.Kind {
	case KPP, KP, KC:
		if !w.sigOK(m.Sender, h, m.Ref.Raw) {
			return false, "signature does not verify under the claimed sender"
		}
	case KVC:
		if !w.sigOK(m.Sender, h, m.Vote.HeaderRaw) {
			return false, "signature does not verify under the claimed sender"
		}
	}
	switch m.Kind {
	case KPP:
		if !w.isLeader(m.Sender.Id, h, v) {
			return false, "PREPREPARE not from the leader of its view"
		}
	case KP:
		if w.isLeader(m.Sender.Id, h, v) {
			return false, "PREPARE from the leader"
		}
	case KC:
		if !w.keys.SeedShareValid(m.Sender.Id, h, w.seedContent(h), m.Share) {
			return false, "invalid random-seed share"
		}
	case KVC:
		if !w.isLeader(n.id, h, v) {
			return false, "VIEW_CHANGE not addressed to this node as leader"
		}
		if m.Vote.Proof.Present {
			if ok, why := w.refProof(m.Vote.Proof, h, v); !ok {
				return false, "prepared proof invalid: " + why
			}
		}
	}
	return true, ""
}

func authClass(why string) string {
	switch {
	case containsStr(why, "outside committee"):
		return "outsider"
	case containsStr(why, "another message type"):
		return "cross-type"
	case containsStr(why, "signature"):
		return "bad-signature"
	case containsStr(why, "share"):
		return "bad-share"
	case containsStr(why, "proof"):
		return "bad-proof"
	case containsStr(why, "leader"):
		return "role"
	}
	return "other"
}

// checkC08Store: a stored message must correspond to a delivered message that is authentic.
func (w *World) checkC08Store(n *Node, k Kind, h, v uint64, hash []byte, sender primitives.MemberId, sig []byte) {
	var why string
	matched := false
	for _, d := range n.deliveredThisEpoch() {
		m := d.msg
		if m == nil {
			continue
		}
		var cand *Msg
		switch {
		case m.Kind == k && k != KVC && m.Ref.H == h && m.Ref.V == v && bytes.Equal(m.Ref.Hash, hash) && m.Sender.Id.Equal(sender) && bytes.Equal(m.Sender.Sig, sig):
			cand = m
		case m.Kind == KVC && k == KVC && m.Vote.H == h && m.Vote.V == v && m.Sender.Id.Equal(sender) && bytes.Equal(m.Sender.Sig, sig):
			cand = m
		case m.Kind == KNV && k == KPP && m.Ref.H == h && m.Ref.V == v && bytes.Equal(m.Ref.Hash, hash) && m.PPSender.Id.Equal(sender):
			// proposal stored out of a NEW_VIEW: judged by C07; here only the signature of the embedded header
			matched = true
			if w.isLeader(sender, h, v) && w.sigOK(m.PPSender, h, m.Ref.Raw) && m.Ref.Type == protocol.LEAN_HELIX_PREPREPARE {
				return
			}
			why = "embedded proposal not authentic"
			continue
		}
		if cand == nil {
			continue
		}
		matched = true
		ok, y := w.staticAuth(n, cand)
		if ok {
			return
		}
		why = y
	}
	if !matched {
		w.violate("C08", "stored-unknown-message", "n%d stored a %s (h%d,v%d,%x) from %s that was never delivered to it", n.idx, k, h, v, hash, string(sender))
		return
	}
	w.violate("C08", "inauthentic-stored/"+k.String()+"/"+authClass(why), "n%d stored %s (h%d,v%d,%x) claimed by %s although: %s", n.idx, k, h, v, hash, string(sender), why)
}

// ---------------------------------------------------------------------------------------------
// Deliveries: C08 (B, step-based), C11

type preState struct {
	hv       hv
	inComm   bool
	hadPP    bool
	gated    bool
	nStores  int
	nSends   int
	nRegs    int
	nCommits int
	nVals    int
}

func (w *World) preDeliver(n *Node, d *DeliveredRec) {
	d.epoch = n.epoch
	// "gated": the worker cannot take this message now (blocked SPI call, timed retry pause, held by the harness)
	busy := len(n.gates) > 0 || n.wakeAt > 0 || (n.ctrl != nil && (n.ctrl.hold || n.ctrl.state != wsIdle))
	ps := &preState{hv: n.hv(), gated: busy, nStores: len(n.obs.stores), nSends: len(n.obs.sends), nRegs: len(n.obs.registrations), nCommits: len(n.obs.commits), nVals: len(n.obs.validations)}
	ps.inComm = w.inCommittee(ps.hv.h, n.id)
	if d.msg != nil && d.msg.Kind == KNV {
		_, ps.hadPP = n.st.inner.GetPreprepareMessage(primitives.BlockHeight(d.msg.NVH), primitives.View(d.msg.NVV))
	}
	d.pre = ps
}

func (w *World) postDeliver(n *Node, d *DeliveredRec) {
	ps := d.pre
	if ps == nil || !n.alive {
		return
	}
	m := d.msg
	effects := 0
	for _, s := range n.obs.stores[ps.nStores:] {
		if s.ok {
			effects++
		}
	}
	effects += len(n.obs.sends) - ps.nSends
	effects += len(n.obs.registrations) - ps.nRegs
	effects += len(n.obs.commits) - ps.nCommits
	if m == nil {
		if effects > 0 {
			w.violate("C08", "undecodable-influences", "n%d changed state on bytes that decode to no message", n.idx)
		}
		return
	}
	h, v := m.Height(), m.View()
	if w.checks("C08") && effects > 0 && n.correctAt(ps.hv.h) {
		// (B) the message was processed now only if it is for the node's height
		if h != ps.hv.h {
			w.violate("C08", "wrong-height-influences", "n%d at h%d changed state on a %s for h%d", n.idx, ps.hv.h, m.Kind, h)
		} else if m.Kind != KNV {
			ok, why := w.staticAuth(n, m)
			if ok {
				switch m.Kind {
				case KP:
					if v < ps.hv.v {
						ok, why = false, "stale-view PREPARE"
					}
				case KVC:
					if v < ps.hv.v {
						ok, why = false, "stale-view VIEW_CHANGE"
					}
				}
			}
			if !ok {
				cls := authClass(why)
				if containsStr(why, "stale") {
					cls = "stale-view"
				}
				w.violate("C08", "inauthentic-influences/"+m.Kind.String()+"/"+cls, "n%d (h%d,v%d) changed state (%d effects) on %s although: %s", n.idx, ps.hv.h, ps.hv.v, effects, m.Short(), why)
			}
		} else if v < ps.hv.v {
			w.violate("C08", "inauthentic-influences/NV/stale-view", "n%d (h%d,v%d) changed state on a stale NEW_VIEW for view %d", n.idx, ps.hv.h, ps.hv.v, v)
		} else {
			// the votes embedded in a NEW_VIEW the node acted upon were counted toward its quorum: each of them is a
			// VIEW_CHANGE that influenced the node, and a prepared proof inside one of them counted
			for _, vt := range m.Votes {
				if ok, why := w.refVote(vt, h, v); !ok {
					w.violate("C08", "inauthentic-influences/NV-vote/"+authClass(why), "n%d (h%d,v%d) acted (%d effects) on %s whose embedded vote of %s does not count: %s", n.idx, ps.hv.h, ps.hv.v, effects, m.Short(), string(vt.Sender.Id), why)
					break
				}
			}
		}
	}
	if w.checks("C11") && d.honest && d.origin >= 0 && !w.isByz(d.origin) {
		w.checkC11(n, d, ps)
	}
}

// checkC11: an unmodified message of a correct sender was delivered to correct peer n.
func (w *World) checkC11(n *Node, d *DeliveredRec, ps *preState) {
	m := d.msg
	h, v := m.Height(), m.View()
	sender := w.nodes[d.origin]
	if !sender.correctAt(h) || !n.correctAt(h) || d.sent == nil || d.sent.epoch != sender.epoch && sender.amnesiac[h] {
		return
	}
	if ps.hv.h != h || !ps.inComm || ps.gated || !w.inCommittee(h, sender.id) {
		return
	}
	H, V := primitives.BlockHeight(h), primitives.View(v)
	switch m.Kind {
	case KNV:
		if ps.hv.v > v || ps.hadPP {
			return
		}
		// the peer's own consumer may reject a fresh proposal: that is its right
		for _, val := range n.obs.validations[ps.nVals:] {
			if !val.ok {
				return
			}
		}
		w.probe("c11-nv-judged")
		if len(n.obs.commits) > ps.nCommits || n.hv().h > h {
			return // adopting it completed the round; the term's log was cleared
		}
		pp, has := n.st.inner.GetPreprepareMessage(H, V)
		sentP := false
		for _, s := range n.obs.sends[ps.nSends:] {
			if s.msg != nil && s.msg.Kind == KP && s.msg.Ref.H == h && s.msg.Ref.V == v && bytes.Equal(s.msg.Ref.Hash, m.Ref.Hash) {
				sentP = true
			}
		}
		if !has || !bytes.Equal(pp.Content().SignedHeader().BlockHash(), m.Ref.Hash) || !sentP || n.hv() != (hv{h, v}) {
			w.violate("C11", "honest-new-view-refused", "n%d (h%d,v%d) did not adopt the NEW_VIEW (h%d,v%d) of correct leader n%d: stored=%v prepared=%v now=%v ; %s", n.idx, ps.hv.h, ps.hv.v, h, v, sender.idx, has, sentP, n.hv(), m.Short())
		}
	case KVC:
		if !w.isLeader(n.id, h, v) || ps.hv.v > v {
			return
		}
		w.probe("c11-vc-judged")
		vcs, _ := n.st.inner.GetViewChangeMessages(H, V)
		for _, x := range vcs {
			if x.SenderMemberId().Equal(sender.id) {
				return
			}
		}
		w.violate("C11", "honest-vote-refused", "leader n%d (h%d,v%d) did not count the VIEW_CHANGE (h%d,v%d) of correct n%d: %s", n.idx, ps.hv.h, ps.hv.v, h, v, sender.idx, m.Short())
	case KP:
		if ps.hv.v > v {
			return
		}
		w.probe("c11-p-judged")
		for _, id := range n.st.inner.GetPrepareSendersIds(H, V, m.Ref.Hash) {
			if id.Equal(sender.id) {
				return
			}
		}
		if len(n.obs.commits) > ps.nCommits || n.hv().h > h {
			return // the PREPARE completed the round; the term's log was cleared
		}
		w.violate("C11", "honest-prepare-refused", "n%d (h%d,v%d) did not count the PREPARE (h%d,v%d) of correct n%d", n.idx, ps.hv.h, ps.hv.v, h, v, sender.idx)
	case KC:
		w.probe("c11-c-judged")
		for _, id := range n.st.inner.GetCommitSendersIds(H, V, m.Ref.Hash) {
			if id.Equal(sender.id) {
				return
			}
		}
		// after the commit the term is disposed and its log cleared: then the message was counted if a commit happened in this step
		if len(n.obs.commits) > ps.nCommits || n.hv().h > h {
			return
		}
		w.violate("C11", "honest-commit-refused", "n%d (h%d,v%d) did not count the COMMIT (h%d,v%d) of correct n%d", n.idx, ps.hv.h, ps.hv.v, h, v, sender.idx)
	}
}

// ---------------------------------------------------------------------------------------------
// Panics, leaks: C12, C16

func (w *World) onPanicObserved(err error) {
	cls := "other"
	s := err.Error()
	switch {
	case containsStr(s, "index out of range [-"):
		cls = "negative-index"
	case containsStr(s, "nil pointer"):
		cls = "nil-deref"
	case containsStr(s, "index out of range"), containsStr(s, "slice bounds"):
		cls = "out-of-range"
	}
	w.violate("C12", "recovered-panic/"+cls, "a supervised loop recovered from a panic: %s", firstLine(s))
	w.violate("C18", "leader-computation-panicked/"+cls, "a supervised loop recovered from a panic while handling a message with an extreme view: %s", firstLine(s))
}

func (w *World) onBubbleLeak(msg string) {
	w.violate("C16", "goroutine-leak", "goroutines of the library are still blocked after shutdown: %s", firstLine(msg))
}

func (w *World) onGenuineProofRejected(n *Node, sb *StoredBlock, th uint64, err error) {
	w.violate("C03", "genuine-proof-rejected-on-sync", "n%d rejects the committed pair of h%d obtained from a correct peer: %v", n.idx, th, err)
}

// sameVote: the same signed statement of the same member. The library re-encodes a received vote when it embeds it
// in a NEW_VIEW (signed header bytes and sender signature are copied, the envelope is rebuilt), so envelope bytes
// outside the signed header - alignment padding an adversary may have flipped in transit - are not part of the identity.
func sameVote(a, b *Vote) bool {
	return bytes.Equal(a.HeaderRaw, b.HeaderRaw) && a.Sender.Id.Equal(b.Sender.Id) && bytes.Equal(a.Sender.Sig, b.Sender.Sig)
}

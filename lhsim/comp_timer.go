package lhsim

import (
	"fmt"
	"math"
	"time"

	"github.com/orbs-network/lean-helix-go/services/electiontrigger"
	"github.com/orbs-network/lean-helix-go/services/interfaces"
	"github.com/orbs-network/lean-helix-go/spec/types/go/primitives"
)

// COMP shape for C19: the library's real TimerBasedElectionTrigger on the bubble's fake clock, driven by
// tape-chosen interleavings of RegisterOnElection / Stop / clock advance / reader present or absent, with
// hook H3 optionally holding the fired timer goroutine before its first select.

type armed struct {
	hv       hv
	at       time.Duration
	timeout  time.Duration
	seq      int
	dead     bool // superseded or stopped
	deadAt   time.Duration
	received int
	calls    int
}

type timerRig struct {
	w      *World
	t      *Electiontrigger.TimerBasedElectionTrigger
	base   time.Duration
	arms   []*armed
	cur    *armed
	reader bool
	got    chan *interfaces.ElectionTrigger
	stopRd chan struct{}
	held   int
	defer_ bool           // the reader queues what it receives; "act" operations process the queue later
	queue  []heldTrigger
}

type heldTrigger struct {
	tr *interfaces.ElectionTrigger
	hv hv // the pair it carried when it was delivered
}

func genTimerConfig(ch *Chooser, prop, tier string, disabled map[string]bool) *RunConfig {
	cfg := &RunConfig{Prop: prop, Shape: "COMP-timer", Tier: tier, Disabled: disabled}
	cfg.MaxSteps = 5 + ch.Pick("len", 60)
	return cfg
}

// pickTimerBase: the configured timeout of view 0. Ordinary values, exact powers of two (the doubling then lands exactly
// on 2^63 at one view), neighbours of powers of two, arbitrary values, and the extremes. Every class is exactly
// representable in the library's floating-point arithmetic (below 2^53 or a power of two), so the expected value of
// every view is base*2^v to the nanosecond.
func pickTimerBase(ch *Chooser) time.Duration {
	switch c := ch.Pick("base", 10); c {
	case 5:
		return time.Duration(1) << uint(ch.Pick("base-pow2", 63))
	case 6:
		k := uint(2 + ch.Pick("base-pow2n", 51))
		return time.Duration(1)<<k + time.Duration(2*ch.Pick("base-side", 2)-1)
	case 7:
		return time.Duration(1 + ch.Pick("base-any", 1<<40))
	case 8:
		return time.Duration(1 + ch.Pick("base-small", 16))
	case 9:
		return []time.Duration{time.Duration(math.MaxInt64), 1<<53 - 1, 1 << 62}[ch.Pick("base-extreme", 3)]
	default:
		return []time.Duration{time.Millisecond, 100 * time.Millisecond, time.Second, 4 * time.Second, time.Minute}[c]
	}
}

// satView: the first view whose nominal timeout no longer fits (where saturation begins) for this base.
func satView(base time.Duration) uint64 {
	for v := uint64(0); v < 64; v++ {
		if nominalTimeout(base, v) == time.Duration(math.MaxInt64) {
			return v
		}
	}
	return 64
}

var viewClasses = []uint64{0, 1, 2, 3, 5, 8, 13, 20, 31, 32, 33, 34, 40, 62, 63, 64, 65, 100, 199, 200, 1 << 31, 1<<32 - 1, 1 << 32, 1<<63 - 1, 1 << 63, ^uint64(0) - 1, ^uint64(0)}

// nominal: base*2^v in exact arithmetic, saturating at the largest duration.
func nominalTimeout(base time.Duration, v uint64) time.Duration {
	if v >= 63 {
		return time.Duration(math.MaxInt64)
	}
	m := uint64(1) << v
	if uint64(base) > uint64(math.MaxInt64)/m {
		return time.Duration(math.MaxInt64)
	}
	return time.Duration(uint64(base) * m)
}

func (r *timerRig) checkTimeoutFunction() {
	w := r.w
	prev := time.Duration(0)
	check := func(v uint64) {
		d := r.t.CalcTimeout(primitives.View(v))
		if d <= 0 {
			w.violate("C19", "timeout-not-positive", "CalcTimeout(%d) = %v with base %v", v, d, r.base)
		}
		if d < prev {
			w.violate("C19", "timeout-not-monotone", "CalcTimeout(%d) = %v is smaller than the timeout of a lower view (%v), base %v", v, d, prev, r.base)
		}
		nom := nominalTimeout(r.base, v)
		if nom < time.Duration(math.MaxInt64) && d != nom {
			w.violate("C19", "timeout-not-exponential", "CalcTimeout(%d) = %v, expected base*2^v = %v", v, d, nom)
		}
		prev = d
	}
	for v := uint64(0); v <= 200; v++ {
		check(v)
	}
	for _, v := range viewClasses {
		if v > 200 {
			check(v)
		}
	}
}

func (r *timerRig) startReader() {
	if r.reader {
		return
	}
	r.reader = true
	r.stopRd = make(chan struct{})
	stop := r.stopRd
	ch := r.t.ElectionChannel()
	go func() {
		for {
			select {
			case tr := <-ch:
				if r.defer_ {
					// the consumer keeps what it received (the worker's buffered election slot) and reads it again later
					x := hv{uint64(tr.Hv.Height()), uint64(tr.Hv.View())}
					r.queue = append(r.queue, heldTrigger{tr, x})
				}
				r.onTrigger(tr)
			case <-stop:
				return
			}
		}
	}()
}

func (r *timerRig) stopReader() {
	if r.reader {
		close(r.stopRd)
		r.reader = false
	}
}

// actOnQueued: the consumer of the election channel (the main loop hands triggers to a buffered slot of the worker)
// gets round to a trigger it took earlier. A delivered trigger carries exactly the pair it was armed for - still.
func (r *timerRig) actOnQueued() {
	if len(r.queue) == 0 {
		return
	}
	q := r.queue[0]
	r.queue = r.queue[1:]
	now := hv{uint64(q.tr.Hv.Height()), uint64(q.tr.Hv.View())}
	if now != q.hv {
		r.w.violate("C19", "trigger-changed-after-delivery", "the trigger delivered for (h%d,v%d) reads (h%d,v%d) when its consumer gets round to it", q.hv.h, q.hv.v, now.h, now.v)
		return
	}
	r.w.probe("kept-trigger-read-again")
}

func (r *timerRig) onTrigger(tr *interfaces.ElectionTrigger) {
	w := r.w
	w.syncClock()
	x := hv{uint64(tr.Hv.Height()), uint64(tr.Hv.View())}
	w.ev("trigger received (h%d,v%d)", x.h, x.v)
	w.probe("trigger-received")
	// attribute to the latest arming of that pair
	var a *armed
	for i := len(r.arms) - 1; i >= 0; i-- {
		if r.arms[i].hv == x {
			a = r.arms[i]
			break
		}
	}
	if a == nil {
		w.violate("C19", "trigger-for-unarmed-pair", "received a trigger for (h%d,v%d) which was never armed", x.h, x.v)
		return
	}
	a.received++
	if a.received > 1 {
		w.violate("C19", "trigger-twice", "arming #%d of (h%d,v%d) produced %d triggers", a.seq, x.h, x.v, a.received)
	}
	if w.now < a.at+a.timeout {
		w.violate("C19", "trigger-early", "trigger of (h%d,v%d) armed at %v with timeout %v arrived at %v", x.h, x.v, a.at, a.timeout, w.now)
	}
	if a.dead {
		w.violate("C19", "stale-trigger-delivered", "a trigger of (h%d,v%d) was delivered at %v although that arming was superseded/stopped at %v", x.h, x.v, w.now, a.deadAt)
	}
	// what the worker would do: run the callback
	before := a.calls
	tr.MoveToNextLeader()
	if a.calls != before+1 {
		w.violate("C19", "callback-mismatch", "the trigger of (h%d,v%d) did not invoke the callback registered with that arming", x.h, x.v)
	}
}

func RunTimerComp(w *World) {
	r := &timerRig{w: w}
	r.defer_ = w.ch.Pick("deferred-reader", 3) == 2
	w.enableYields()
	r.base = pickTimerBase(w.ch)
	r.t = Electiontrigger.NewTimerBasedElectionTrigger(r.base, nil)
	r.checkTimeoutFunction()
	holdP := []int{0, 0, 300, 1000}[w.ch.Pick("hold-mode", 4)]
	w.yieldAll = true
	keep := func(y *yieldRec) bool {
		if holdP > 0 && (holdP >= 1000 || w.ch.Chance("hold-fire", holdP)) {
			w.stats.Fault("timer-goroutine-held")
			w.ev("hold fired timer goroutine (h%d,v%d)", y.h, y.v)
			return true
		}
		return false
	}
	kill := func() {
		if r.cur != nil {
			r.cur.dead = true
			r.cur.deadAt = w.now
			r.cur = nil
		}
	}
	heights := 1 + w.ch.Pick("heights", 3)
	for w.step = 0; w.step < w.cfg.MaxSteps && w.viol == nil; w.step++ {
		simWait()
		w.settleYields(keep)
		w.syncClock()
		if r.defer_ && len(r.queue) > 0 && w.ch.Pick("act-on-queued", 3) == 2 {
			w.action("act-on-queued")
			r.actOnQueued()
			continue
		}
		switch op := w.ch.Pick("op", 11); {
		case op == 10: // preempt the next goroutine of the timer at one of its synchronisation points
			if w.ys.arm == nil {
				w.action("arm-yield")
				w.armYield(nil, "", 1+w.ch.Pick("yield-in", 3), "")
			}
		case op <= 2: // register
			x := hv{uint64(1 + w.ch.Pick("h", heights)), uint64(w.ch.Pick("v", 6))}
			switch w.ch.Pick("v-class", 12) {
			case 11:
				x.v = viewClasses[w.ch.Pick("v-which", len(viewClasses))]
			case 10:
				// around the view where the timeout of this base stops fitting
				if sv := satView(r.base) + uint64(w.ch.Pick("v-sat", 3)); sv >= 1 {
					x.v = sv - 1
				}
			}
			if r.cur != nil && w.ch.Pick("same-pair", 4) == 3 {
				x = r.cur.hv
			}
			w.action("register")
			same := r.cur != nil && r.cur.hv == x
			if !same {
				kill()
				a := &armed{hv: x, at: w.now, timeout: nominalTimeout(r.base, x.v), seq: len(r.arms)}
				r.arms = append(r.arms, a)
				r.cur = a
			} else {
				w.stats.Fault("re-register-same-pair")
			}
			a := r.cur
			w.ev("register (h%d,v%d) same=%v timeout=%v", x.h, x.v, same, a.timeout)
			cb := func(h primitives.BlockHeight, v primitives.View, _ interfaces.OnElectionCallback) {
				if uint64(h) != a.hv.h || uint64(v) != a.hv.v {
					w.violate("C19", "callback-wrong-pair", "callback of (h%d,v%d) invoked with (h%d,v%d)", a.hv.h, a.hv.v, h, v)
				}
				a.calls++
			}
			if same {
				// the library keeps the first callback of an unchanged pair
				r.t.RegisterOnElection(primitives.BlockHeight(x.h), primitives.View(x.v), func(h primitives.BlockHeight, v primitives.View, c interfaces.OnElectionCallback) { cb(h, v, c) })
			} else {
				r.t.RegisterOnElection(primitives.BlockHeight(x.h), primitives.View(x.v), cb)
			}
		case op == 3: // stop
			w.action("stop")
			w.ev("stop")
			w.stats.Fault("stop")
			r.t.Stop()
			kill()
		case op <= 6: // advance the clock
			var d time.Duration
			switch w.ch.Pick("adv-kind", 4) {
			case 0:
				if r.cur != nil && r.cur.at+r.cur.timeout > w.now && r.cur.timeout < time.Duration(1)<<60 {
					d = r.cur.at + r.cur.timeout - w.now // exactly to the expiry
				} else {
					d = r.base
				}
			case 1:
				if r.cur != nil && r.cur.timeout < time.Duration(1)<<60 && r.cur.at+r.cur.timeout > w.now+1 {
					d = r.cur.at + r.cur.timeout - w.now - 1 // one tick before the expiry
				} else {
					d = r.base / 2
				}
			case 2:
				d = r.base
				if m := time.Duration(1 + w.ch.Pick("adv-mult", 40)); r.base < time.Duration(1)<<48 {
					d = r.base * m
				}
			default:
				d = time.Duration(1+w.ch.Pick("adv-ms", 50)) * time.Millisecond
			}
			if d <= 0 {
				d = time.Millisecond
			}
			if d > time.Duration(1)<<55 {
				d = time.Duration(1) << 55 // about a year per step: the simulated clock stays far from its own limits
			}
			w.action("advance")
			w.ev("advance %v", d)
			w.sleep(d)
		case op == 7:
			w.action("reader-on")
			w.ev("reader on")
			r.startReader()
		case op == 8:
			w.action("reader-off")
			w.ev("reader off")
			w.stats.Fault("reader-absent")
			r.stopReader()
		default:
			if ys := w.heldYields(); len(ys) > 0 {
				w.action("release-held")
				w.ev("release held timer goroutine")
				w.releaseYield(w.ch.Pick("which-held", len(ys)))
			} else if len(w.ys.loose) > 0 {
				w.action("release-preempted")
				g := w.ys.loose[w.ch.Pick("which-preempted", len(w.ys.loose))]
				g.release <- GatePass
			}
		}
	}
	simWait()
	w.syncClock()
	// an armed, un-superseded timer with a reader eventually delivers its trigger
	w.ys.arm = nil
	if w.releaseLooseYields() {
		simWait()
	}
	if w.viol == nil && r.cur != nil && r.cur.received == 0 && r.cur.timeout < time.Duration(1)<<58 {
		w.releaseYields()
		r.startReader()
		simWait()
		rest := r.cur.at + r.cur.timeout - w.now
		if rest > 0 {
			w.sleep(rest)
		}
		simWait()
		w.settleYields(nil)
		w.releaseYields()
		simWait()
		if r.cur.received != 1 {
			w.violate("C19", "trigger-not-delivered", "(h%d,v%d) armed at %v with timeout %v, never superseded, reader present: no trigger by %v", r.cur.hv.h, r.cur.hv.v, r.cur.at, r.cur.timeout, time.Since(w.start))
		} else {
			w.probe("final-delivery")
		}
	}
	// tear down: stop the timer, release everything; a leaked goroutine surfaces when the bubble ends
	r.t.Stop()
	kill()
	w.yieldAll = false
	w.releaseYields()
	simWait()
	r.stopReader()
	simWait()
	w.probe("nontrivial")
	_ = fmt.Sprint
}

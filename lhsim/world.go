package lhsim

import (
	"sync"
	"runtime"
	"strings"
	"context"
	"crypto/sha256"
	"encoding/hex"
	"errors"
	"fmt"
	"hash"
	"os"
	"sort"
	"testing"
	"testing/synctest"
	"time"

	leanhelix "github.com/orbs-network/lean-helix-go"
	"github.com/orbs-network/lean-helix-go/services/interfaces"
	"github.com/orbs-network/lean-helix-go/spec/types/go/primitives"
	"github.com/orbs-network/lean-helix-go/verifhook"
)

var eagerTrace = os.Getenv("SIM_EAGER_TRACE") != ""

type hv struct{ h, v uint64 }

func (a hv) less(b hv) bool { return a.h < b.h || (a.h == b.h && a.v < b.v) }

// ---------------------------------------------------------------------------------------------

type Violation struct {
	Prop        string   `json:"property"`
	Oracle      string   `json:"oracle"`
	Detail      string   `json:"detail"`
	Ingredients []string `json:"ingredients"` // adversary strategies / input classes used in the run
	Step        int      `json:"step"`
}

type Stats struct {
	Steps    int            `json:"steps"`
	Faults   map[string]int `json:"faults"`
	Probes   map[string]int `json:"probes"`
	Actions  map[string]int `json:"actions"`
	SimTime  time.Duration  `json:"sim_time_ns"`
	Commits  int            `json:"commits"`
	MaxView  uint64         `json:"max_view"`
	KnownHits map[string]int `json:"known_hits"`
	Trigrams map[string]int `json:"-"`
	lastActs [2]string
}

func newStats() *Stats {
	return &Stats{Faults: map[string]int{}, Probes: map[string]int{}, Actions: map[string]int{}, Trigrams: map[string]int{}, KnownHits: map[string]int{}}
}

func (s *Stats) Fault(k string) { s.Faults[k]++ }

func (s *Stats) action(k string) {
	s.Actions[k]++
	if s.lastActs[0] != "" {
		s.Trigrams[s.lastActs[0]+">"+s.lastActs[1]+">"+k]++
	}
	s.lastActs[0], s.lastActs[1] = s.lastActs[1], k
}

// ---------------------------------------------------------------------------------------------
// Observation records

type SentRec struct {
	seq   uint64
	step  int
	from  int
	to    []int // universe indices (-1 unknown)
	raw   *interfaces.ConsensusRawMessage
	msg   *Msg
	epoch int
}

type DeliveredRec struct {
	seq    uint64
	step   int
	raw    *interfaces.ConsensusRawMessage
	msg    *Msg
	origin int  // universe index of the real originator (-1 adversary-made)
	honest bool // unmodified message from a correct sender
	sent   *SentRec
	tag    string
	epoch  int
	pre    *preState
}

type storeRec struct {
	seq    uint64
	step   int
	kind   string
	h, v   uint64
	hash   []byte
	sender primitives.MemberId
	ok     bool
	epoch  int
}

type commitRec struct {
	seq    uint64
	step   int
	height uint64
	block  *Block
	proof  []byte
	failed bool
	epoch  int
}

type newRoundRec struct {
	seq    uint64
	height uint64
	first  bool
	prev   *Block
	epoch  int
}

type validationRec struct {
	seq    uint64
	height uint64
	hash   []byte
	block  *Block
	ok     bool
	epoch  int
	step   int
}

type proposalRec struct {
	seq            uint64
	height         uint64
	hash           []byte
	ctxDeadAtStart bool
	ctxDeadAtEnd   bool
	epoch          int
	step           int
}

type nodeObs struct {
	commits        []commitRec
	newRounds      []newRoundRec
	registrations  []hv
	sends          []*SentRec
	delivered      []*DeliveredRec
	stores         []storeRec
	validations    []validationRec
	proposals      []proposalRec
	committeeCalls int
	seedAt         map[uint64]uint64
	shareContent   map[uint64][]byte
	panics         int
}

type StoredBlock struct {
	block *Block
	proof []byte
}

type Node struct {
	w             *World
	idx           int
	id            primitives.MemberId
	byz           bool
	lh            *leanhelix.MainLoop
	cfg           *interfaces.Config
	ctx           context.Context
	cancel        context.CancelFunc
	trig          *SimTrigger
	realTrig      *RealTrigger
	st            *StorageDeco
	alive         bool
	everStarted   bool
	epoch         int
	timerBase     time.Duration
	gatePolicy    func(kind string, h uint64) GateVerdict
	gates         []*Gate
	proposePoison bool
	store         map[uint64]*StoredBlock // consumer block store: the only state that survives a crash
	obs           nodeObs
	amnesiac      map[uint64]bool
	ctrl          *workerCtrl
	useRealTimer  bool
	shutdownDone  chan struct{}

	controlled    bool // worker select under harness control (H1)
	lateResultPm  int
	shuttingDown  bool
	burstDone     bool
	spiStep       int
	dueTrigger    *hv
	logYieldIn    int
	logYieldTrace bool
	simLogger     bool
	dueStep       int
	spiCalls      int
	syncedTo      map[uint64]bool
	inboxUnknown  bool
	inbox         []*Msg // messages handed to the main loop and not yet taken by the (controlled) worker
	curMsg        *Msg   // the message the worker is processing
	wm            hv     // model of the context watermark caused by elections / syncs handed to the main loop
	maxSync       int64  // highest block height the main loop accepted from UpdateState (-1: none)
	updates       []updateRec
	syncPre       *preState
	wakeAt        time.Duration // a timed wait inside the library ends by then (committee retry)
	wakeSeq       uint64
	freeChoices      int // worker choices the tape still makes after cancellation (C16)
	workerNotedEpoch int
	mainParked    *Gate          // the node's main loop is parked at a scheduling point (H4)
	pendingSyncs  []*pendingSync // UpdateState calls blocked on a parked main loop
	samples       []*sampleRec // State() snapshots taken by a concurrent consumer thread (C13)

	// per-instance oracle state
	regEpochStart   int
	lastSample      hv
	lastSampleEpoch int
	sentHash        map[hvk][]byte
	lastVC          map[uint64]uint64
	lastProofView   map[uint64]int64
	c07done         map[string]bool
}

func (n *Node) height() uint64 {
	if n.lh == nil {
		return 0
	}
	defer n.w.quiet()() // harness code reading the library's state (possibly on a library goroutine, inside a fake): never a preemption point
	return uint64(n.lh.State().Height())
}
func (n *Node) view() uint64 {
	if n.lh == nil {
		return 0
	}
	defer n.w.quiet()()
	return uint64(n.lh.State().View())
}
func (n *Node) hv() hv {
	if n.lh == nil {
		return hv{}
	}
	defer n.w.quiet()()
	x := n.lh.State().HeightView()
	return hv{uint64(x.Height()), uint64(x.View())}
}

func (n *Node) lastStored() (uint64, *StoredBlock) {
	var top uint64
	for h := range n.store {
		if h > top {
			top = h
		}
	}
	if top == 0 {
		return 0, nil
	}
	return top, n.store[top]
}

// ---------------------------------------------------------------------------------------------

type Flight struct {
	seq    uint64
	from   int // universe index of sender as seen by the network (-1 = adversary injected w/o identity)
	to     int
	raw    *interfaces.ConsensusRawMessage
	at     time.Duration
	sent   *SentRec
	honest bool
	tag    string // adversary strategy that made it ("" for honest traffic)
	dupOf  bool
}

// advWait: adversary moves that start once the correct nodes have reached view v of height h.
type advWait struct {
	h, v uint64
	then []string
}

type World struct {
	t        *testing.T
	ch       *Chooser
	cfg      *RunConfig
	keys     *Keys
	instance uint64
	nodes    []*Node
	comms    map[uint64][]interfaces.CommitteeMember
	start    time.Time
	now      time.Duration
	slept    time.Duration // total the harness itself slept: the clock may not be anywhere else
	seq      uint64
	step     int
	flights  []*Flight
	hasher   hash.Hash
	trace    []string
	tracing  bool
	stats    *Stats
	viol     *Violation
	blocks   map[string]*Block
	producedBy map[string]int
	nonce    uint64
	sent     []*SentRec
	used     map[string]bool // ingredients used so far
	blocked  map[[2]int]bool // partitioned directed links
	firstCommit map[uint64]*commitRec
	firstCommitBy map[uint64]int
	stateSet map[string]bool
	stepActs []string
	atHook   func(point string)
	stabilised bool
	extra    map[string]interface{}
	byzProposals []*Msg
	tainted  bool
	hold     func(f *Flight) bool
	dir      *director
	recovering bool
	timeUp     bool
	runaway    bool
	never      chan struct{}
	live       []*liveHeight
	liveAbstain bool
	stableBudget, stableStart, byzSteps int
	advPlan  []string
	advWait  *advWait
	commitFailedN *Node // a correct node whose commit callback just failed (the adversary may try a second proposal)
	decoyFor hv // the (height, view) for which a Byzantine leader sent a proposal ahead of time
	planned  map[hv]*Block // blocks a Byzantine leader announced for views it will lead (byz.self-prepare)
	yieldAll bool
	yieldN   int
	yields   []*yieldRec
	ys       yieldState
	evMu     sync.Mutex
	evBuf    []string
	synN     int // synthetic committees made so far (block-proof scenario)
	kmHold   *kmHold
	callCancel *callCancel
	avoidHash []byte // adversary: prefer certificates for another block than this one (the honest lock)
	stimAny  bool  // a clock advance is in progress (real timers of any node may fire)
	stimNode *Node // the node whose main loop is being handed an election trigger / a sync right now
}

func (w *World) ev(format string, args ...interface{}) {
	w.seq++
	s := fmt.Sprintf(format, args...)
	// The event-log hash is taken over windows: everything logged between two points at which the harness resumes
	// (return of a quiescence wait or of a clock sleep) is sorted before it is hashed. Inside one window two
	// goroutines of the library may both be running (the main loop cancels a context and goes on, the worker woken by
	// that cancellation goes on too): the order of their log lines is the Go scheduler's, not the tape's.
	w.evMu.Lock()
	w.evBuf = append(w.evBuf, s)
	w.evMu.Unlock()
	if w.tracing {
		w.trace = append(w.trace, fmt.Sprintf("%6d t=%-10v %s", w.seq, w.now, s))
	}
	if eagerTrace {
		fmt.Fprintf(os.Stderr, "%6d t=%-10v %s\n", w.seq, w.now, s)
	}
}

func (w *World) probe(name string) { w.stats.Probes[name]++ }

func (w *World) use(ingredient string) {
	if !w.used[ingredient] {
		w.used[ingredient] = true
	}
}

func (w *World) disabled(ingredient string) bool {
	return w.cfg.Disabled[ingredient]
}

func (w *World) violate(prop, oracle, format string, args ...interface{}) {
	if w.viol != nil || w.tainted {
		return // tainted: the run was ended unjudged (a listed known finding surfaced, or the run was abandoned)
	}
	if !w.checks(prop) {
		return
	}
	if ing, listed := w.cfg.Known[oracle]; listed && (ing == "" || w.used[ing]) {
		// a listed known finding surfaced through a path the generator did not filter: count it, end the run,
		// judge nothing that follows from it
		w.stats.KnownHits[oracle]++
		w.tainted = true
		w.ev("KNOWN-FINDING-HIT %s/%s", prop, oracle)
		return
	}
	ing := make([]string, 0, len(w.used))
	for k := range w.used {
		ing = append(ing, k)
	}
	sort.Strings(ing)
	w.viol = &Violation{Prop: prop, Oracle: oracle, Detail: fmt.Sprintf(format, args...), Ingredients: ing, Step: w.step}
	w.ev("VIOLATION %s/%s %s", prop, oracle, w.viol.Detail)
}

// guardAPI runs one call of the library's public API on a consumer thread of the harness: a panic that comes out of
// the call to its caller is a verdict (C12: "never panic out to the caller"), not a crash of the simulator.
func (w *World) guardAPI(name string, call func()) {
	defer func() {
		if r := recover(); r != nil {
			w.probe("api-call-panicked")
			w.violate("C12", "api-call-panicked", "%s panicked out to its caller: %v | %s", name, r, compactStack())
		}
	}()
	call()
}

// checks reports whether oracles of property p are evaluated in this run.
func (w *World) checks(p string) bool {
	if w.cfg.Oracles == nil {
		return true
	}
	return w.cfg.Oracles[p]
}

func (w *World) Committee(h uint64) []interfaces.CommitteeMember {
	if c, ok := w.comms[h]; ok {
		return append([]interfaces.CommitteeMember(nil), c...)
	}
	// heights beyond the generated range reuse the last generated committee
	var top uint64
	for k := range w.comms {
		if k > top && k < syntheticHeightBase {
			top = k
		}
	}
	return append([]interfaces.CommitteeMember(nil), w.comms[top]...)
}

func (w *World) committeeIdx(h uint64) []int {
	c := w.Committee(h)
	out := make([]int, len(c))
	for i, m := range c {
		out[i] = w.keys.IdxOf(m.Id)
	}
	return out
}

func (w *World) inCommittee(h uint64, id primitives.MemberId) bool {
	for _, m := range w.Committee(h) {
		if m.Id.Equal(id) {
			return true
		}
	}
	return false
}

func (w *World) leader(h, v uint64) primitives.MemberId {
	c := w.Committee(h)
	return c[v%uint64(len(c))].Id
}

// exact integer thresholds from the formula the properties state
func thresholds(c []interfaces.CommitteeMember) (W, f, q uint64) {
	for _, m := range c {
		W += uint64(m.Weight)
	}
	if W == 0 {
		return 0, 0, 1
	}
	f = (W - 1) / 3
	q = W - f
	return
}

func (w *World) weightOf(h uint64, ids map[string]bool) uint64 {
	var s uint64
	for _, m := range w.Committee(h) {
		if ids[string(m.Id)] {
			s += uint64(m.Weight)
		}
	}
	return s
}

func (w *World) noteSeedContent(idx int, height uint64, content []byte) {
	n := w.nodes[idx]
	if n.obs.shareContent == nil {
		n.obs.shareContent = map[uint64][]byte{}
	}
	n.obs.shareContent[height] = cp(content)
}

func (w *World) noteMasterVerify(idx int, height uint64, content []byte) {
	w.ev("verify-master n%d h%d content=%s", idx, height, string(content))
	if w.extra != nil {
		w.extra["lastMasterVerify"] = struct {
			h uint64
			c []byte
		}{height, cp(content)}
	}
}

// ---------------------------------------------------------------------------------------------
// Node life cycle

func (w *World) newNode(idx int, byz bool) *Node {
	n := &Node{w: w, idx: idx, id: w.keys.ids[idx], byz: byz, store: map[uint64]*StoredBlock{}, amnesiac: map[uint64]bool{}}
	n.obs.seedAt = map[uint64]uint64{}
	n.timerBase = time.Second
	return n
}

func (w *World) startNode(n *Node) {
	if n.byz {
		return
	}
	n.epoch++
	n.alive = true
	n.everStarted = true
	n.st = NewStorageDeco(n)
	n.gates = nil
	n.regEpochStart = len(n.obs.registrations)
	n.sentHash, n.lastVC, n.lastProofView, n.c07done = nil, nil, nil, nil
	cfg := &interfaces.Config{
		InstanceId:    primitives.InstanceId(w.instance),
		Communication: &Communication{n},
		Membership:    &Membership{n},
		BlockUtils:    &BlockUtils{n},
		KeyManager:    &KeyManager{w, n.idx},
		Storage:       n.st,
	}
	if n.simLogger {
		cfg.Logger = &SimLogger{n}
	}
	if n.useRealTimer {
		n.realTrig = NewRealTrigger(n)
		cfg.OverrideElectionTrigger = n.realTrig
		n.trig = nil
	} else {
		n.trig = &SimTrigger{n: n, ch: make(chan *interfaces.ElectionTrigger)}
		cfg.OverrideElectionTrigger = n.trig
		n.realTrig = nil
	}
	n.cfg = cfg
	if w.cfg.WorkerControl || n.controlled {
		n.ctrl = newWorkerCtrl(n)
	} else {
		n.ctrl = nil
	}
	n.inboxUnknown = false
	n.inbox, n.curMsg, n.wm, n.maxSync, n.updates, n.shuttingDown, n.dueTrigger = nil, nil, hv{}, -1, nil, false, nil
	n.freeChoices = 0
	n.ctx, n.cancel = context.WithCancel(context.Background())
	n.lh = leanhelix.NewLeanHelix(cfg, n.onCommit, n.onNewRound)
	n.mainParked, n.pendingSyncs = nil, nil
	w.ys.starting = n
	n.lh.Run(n.ctx)
	simWait() // the new loops come to rest before the harness touches anything else
	w.ys.starting = nil
	w.ev("start n%d epoch%d", n.idx, n.epoch)
}

// stopNode cancels the node's context and waits for its loops (used at the end of runs and for crashes).
func (w *World) stopNode(n *Node) {
	if !n.alive {
		return
	}
	w.forceReleaseMain(n) // see cancelFocus: never cancel under a main loop that is parked mid-iteration
	n.alive = false
	w.ev("stop n%d", n.idx)
	n.cancel()
	// the loops first come to rest on the cancellation (contexts shut down), only then do calls that ignore their
	// context return: otherwise the worker would race the main loop's shutdown
	w.drainNode(n)
	// drop what was in flight to it
	keep := w.flights[:0]
	for _, f := range w.flights {
		if f.to != n.idx {
			keep = append(keep, f)
		}
	}
	w.flights = keep
}

// releaseAllGates releases the node's held consumer calls / parked goroutines one at a time, each coming to rest
// before the next is released (two goroutines released in the same breath would run in an order nobody controls).
func (w *World) releaseAllGates(n *Node) {
	for _, g := range append([]*Gate(nil), n.gates...) {
		v := GateFail
		if g.kind == "commit" && g.ignoresCtx && w.ch.Pick("late-commit-succeeds", 2) == 1 {
			v = GatePass // the consumer finished persisting the block although the node was being shut down
		}
		select {
		case g.release <- v:
			simWait()
		default:
		}
	}
}

// settle drives the worker controllers (if installed) with the default priority until nothing moves.
func (w *World) quiesce() {
	simWait()
	any := false
	for _, n := range w.nodes {
		if n.ctrl != nil {
			any = true
		}
	}
	if !any {
		return
	}
	for i := 0; i < 10000; i++ {
		moved := false
		for _, n := range w.nodes {
			if n.ctrl != nil && n.ctrl.autoStep() {
				moved = true
				simWait() // one worker at a time: two workers released together run in an order nobody controls
			}
		}
		if !moved {
			return
		}
	}
	panic("quiesce: worker controllers did not settle")
}

// ---------------------------------------------------------------------------------------------
// Consumer callbacks

func (n *Node) onCommit(ctx context.Context, block interfaces.Block, proof []byte) error {
	w := n.w
	b := asBlock(block)
	var h uint64
	if block != nil {
		h = uint64(block.Height())
	}
	verdict := n.gateEnter(ctx, "commit", h)
	rec := commitRec{seq: w.seq, step: w.step, height: h, block: b, proof: cp(proof), failed: verdict == GateFail, epoch: n.epoch}
	n.obs.commits = append(n.obs.commits, rec)
	w.ev("commit n%d h%d %s proof=%s failed=%v", n.idx, h, b, shortHash(proof), rec.failed)
	w.onCommitObserved(n, &n.obs.commits[len(n.obs.commits)-1])
	if verdict == GateFail {
		w.stats.Fault("spi-error-commit")
		return errors.New("consumer failed to persist block")
	}
	n.store[h] = &StoredBlock{b, cp(proof)}
	w.stats.Commits++
	return nil
}

func (n *Node) onNewRound(ctx context.Context, newHeight primitives.BlockHeight, prevBlock interfaces.Block, canBeFirstLeader bool) {
	w := n.w
	n.obs.newRounds = append(n.obs.newRounds, newRoundRec{seq: w.seq, height: uint64(newHeight), first: canBeFirstLeader, prev: asBlock(prevBlock), epoch: n.epoch})
	w.ev("newround n%d h%d first=%v", n.idx, newHeight, canBeFirstLeader)
	w.onNewRoundObserved(n, uint64(newHeight), canBeFirstLeader)
}

func shortHash(b []byte) string {
	if len(b) == 0 {
		return "-"
	}
	s := sha256.Sum256(b)
	return hex.EncodeToString(s[:4])
}

// ---------------------------------------------------------------------------------------------
// Network

func (w *World) onSend(n *Node, recipients []primitives.MemberId, raw *interfaces.ConsensusRawMessage) error {
	c := &interfaces.ConsensusRawMessage{Content: cp(raw.Content), Block: raw.Block}
	m := Decode(c)
	rec := &SentRec{seq: w.seq, step: w.step, from: n.idx, raw: c, msg: m, epoch: n.epoch}
	for _, r := range recipients {
		rec.to = append(rec.to, w.keys.IdxOf(r))
	}
	n.obs.sends = append(n.obs.sends, rec)
	w.sent = append(w.sent, rec)
	w.ev("send n%d -> %v : %s #%s", n.idx, rec.to, m.Short(), shortHash(c.Content))
	w.probeProofViews(m, "honest")
	w.onSendObserved(n, rec)
	if w.cfg.SendErrPermille > 0 && !w.stabilised && !w.recovering && w.ch.Chance("send-err", w.cfg.SendErrPermille) {
		w.stats.Fault("send-error")
		return errors.New("network send failed")
	}
	for _, to := range rec.to {
		if to < 0 || to >= len(w.nodes) || w.nodes[to].byz {
			continue // Byzantine members read all traffic from w.sent
		}
		w.enqueue(&Flight{from: n.idx, to: to, raw: c, sent: rec, honest: true})
	}
	return nil
}

// probeProofViews: reach probe - a NEW_VIEW whose votes carry prepared proofs of two / three or more different views.
func (w *World) probeProofViews(m *Msg, who string) {
	if m == nil || m.Kind != KNV {
		return
	}
	views := map[uint64]bool{}
	for _, vt := range m.Votes {
		if vt.Proof.Present {
			views[vt.Proof.PP.V] = true
		}
	}
	switch {
	case len(views) >= 3:
		w.probe("new-view-with-proofs-of-3+-views/" + who)
	case len(views) == 2:
		w.probe("new-view-with-proofs-of-2-views/" + who)
	}
}

func (w *World) enqueue(f *Flight) {
	w.seq++
	f.seq = w.seq
	if f.at == 0 {
		lat := time.Duration(1+w.ch.Pick("lat", w.cfg.MaxLatencyMs)) * time.Millisecond
		f.at = w.now + lat
	}
	w.flights = append(w.flights, f)
}

// deliver hands the message to the node's public API in a fresh goroutine (a consumer thread).
func (w *World) deliver(f *Flight) {
	n := w.nodes[f.to]
	if n.byz || !n.alive {
		return
	}
	w.forceReleaseMain(n)
	m := Decode(f.raw)
	rec := &DeliveredRec{seq: w.seq, step: w.step, raw: f.raw, msg: m, origin: f.from, honest: f.honest, sent: f.sent, tag: f.tag}
	n.obs.delivered = append(n.obs.delivered, rec)
	w.ev("deliver -> n%d : %s #%s %s", n.idx, m.Short(), shortHash(f.raw.Content), f.tag)
	w.preDeliver(n, rec)
	if n.ctrl != nil {
		if forwardedByMainLoop(f.raw) {
			n.inbox = append(n.inbox, m)
		}
	} else {
		n.curMsg = m
	}
	lh, ctx := n.lh, n.ctx
	go w.guardAPI("HandleConsensusMessage", func() { lh.HandleConsensusMessage(ctx, f.raw) })
	w.quiesce()
	w.postDeliver(n, rec)
}

// ---------------------------------------------------------------------------------------------
// Running one bubble

type RunResult struct {
	Violation *Violation `json:"violation,omitempty"`
	Stats     *Stats     `json:"stats"`
	LogHash   string     `json:"log_hash"`
	StateHash string     `json:"state_hash"`
	Tape      []Decision `json:"-"`
	Trace     []string   `json:"-"`
	Diverged  string     `json:"diverged,omitempty"`
	Leak      string     `json:"leak,omitempty"`
	Config    *RunConfig `json:"config,omitempty"`
	Nontrivial bool      `json:"nontrivial"`
	HarnessErr string    `json:"harness_error,omitempty"`
	Sample    string     `json:"-"`
	states    map[string]bool
}

type Scenario func(w *World)

// RunBubble executes one scenario inside one synctest bubble and returns what happened.
func RunBubble(t *testing.T, ch *Chooser, cfg *RunConfig, tracing bool, scen Scenario) (res *RunResult) {
	res = &RunResult{}
	var w *World
	defer func() {
		verifhook.RecoveredPanicFn = nil
		verifhook.AtFn = nil
		verifhook.AtHVFn = nil
		verifhook.ControllerFor = nil
		verifhook.YieldFn = nil
		verifhook.HeldFn = nil
		if r := recover(); r != nil {
			msg := fmt.Sprint(r)
			if w != nil && (containsStr(msg, "blocked goroutines remain") || containsStr(msg, "deadlock")) {
				res.Leak = msg
				w.onBubbleLeak(msg)
				fill(res, w, ch)
				return
			}
			res.HarnessErr = "panic: " + msg
			if w != nil {
				fill(res, w, ch)
			}
		}
	}()
	synctest.Test(t, func(t *testing.T) {
		w = &World{t: t, ch: ch, cfg: cfg, hasher: sha256.New(), tracing: tracing, stats: newStats(),
			comms: map[uint64][]interfaces.CommitteeMember{}, blocks: map[string]*Block{}, producedBy: map[string]int{},
			used: map[string]bool{}, blocked: map[[2]int]bool{}, firstCommit: map[uint64]*commitRec{}, firstCommitBy: map[uint64]int{},
			stateSet: map[string]bool{}, extra: map[string]interface{}{}}
		w.start = time.Now()
		w.never = make(chan struct{})
		spinWorld.Store(w)
		verifhook.RecoveredPanicFn = w.onRecoveredPanic
		verifhook.AtFn = func(p string) {
			if w.atHook != nil {
				w.atHook(p)
			}
		}
		verifhook.AtHVFn = w.atHV
		verifhook.ControllerFor = w.controllerFor
		verifhook.YieldFn = w.atYield
		blockRefTimeMode = cfg.RefTimeMode
		verifhook.HeldFn = w.atHeld
		func() {
			defer func() {
				if r := recover(); r != nil {
					if hp, ok := r.(harnessPanic); ok {
						res.HarnessErr = string(hp)
					} else {
						res.HarnessErr = fmt.Sprintf("panic in scenario: %v | %s", r, compactStack())
					}
				}
			}()
			scen(w)
		}()
		w.shutdownAll()
	})
	fill(res, w, ch)
	return res
}

type harnessPanic string

func fill(res *RunResult, w *World, ch *Chooser) {
	res.Stats = w.stats
	w.stats.SimTime = w.now
	w.stats.Steps = w.step
	res.Violation = w.viol
	w.flushEvents()
	res.LogHash = hex.EncodeToString(w.hasher.Sum(nil)[:8])
	res.Tape = ch.Rec
	res.Trace = w.trace
	res.Diverged = ch.Diverged
	res.Config = w.cfg
	res.StateHash = w.endStateHash()
	res.states = w.stateSet
	res.Sample = w.describeConfig()
	nFaults := 0
	for _, v := range w.stats.Faults {
		nFaults += v
	}
	res.Nontrivial = nFaults > 0 && (w.stats.Commits > 0 || w.stats.MaxView > 0 || w.stats.Probes["nontrivial"] > 0)
}

func containsStr(s, sub string) bool {
	return len(sub) <= len(s) && (func() bool {
		for i := 0; i+len(sub) <= len(s); i++ {
			if s[i:i+len(sub)] == sub {
				return true
			}
		}
		return false
	})()
}

// drainNode lets a cancelled node run to its end, one hand-shake at a time.
func (w *World) drainNode(n *Node) {
	for i := 0; i < 100000; i++ {
		simWait()
		moved := false
		if n.ctrl != nil && w.shutdownWorkerStep(n) {
			moved = true
		}
		if len(n.gates) > 0 {
			w.releaseAllGates(n)
			moved = true
		}
		if !moved {
			return
		}
	}
}

func (w *World) shutdownAll() {
	simWait()
	w.ys.arm = nil
	w.yieldAll = false
	w.releaseYields()
	if w.releaseLooseYields() {
		simWait()
	}
	simWait()
	for _, n := range w.nodes {
		if n.alive {
			w.stopNode(n)
		}
	}
	// let controllers drain: choose done for every parked worker
	for i := 0; i < 100000; i++ {
		simWait()
		moved := false
		for _, n := range w.nodes {
			if n.ctrl != nil && n.ctrl.shutdownStep() {
				moved = true
				simWait()
			}
			if len(n.gates) > 0 {
				w.releaseAllGates(n)
				moved = true
			}
		}
		if !moved {
			break
		}
	}
	simWait()
}

func (w *World) endStateHash() string {
	h := sha256.New()
	for _, n := range w.nodes {
		if n.byz || !n.everStarted {
			continue
		}
		x := n.hv()
		fmt.Fprintf(h, "%d:%d:%d:%d:%d|", n.idx, x.h, x.v, len(n.obs.commits), len(n.store))
	}
	return hex.EncodeToString(h.Sum(nil)[:8])
}

// abstract state sample taken at quiescent points (measure of distinct states reached)
func (w *World) sampleState() {
	var minH uint64 = ^uint64(0)
	for _, n := range w.nodes {
		if !n.byz && n.alive {
			if x := n.height(); x < minH {
				minH = x
			}
		}
	}
	s := ""
	for _, n := range w.nodes {
		if n.byz || !n.alive {
			s += "x|"
			continue
		}
		x := n.hv()
		s += fmt.Sprintf("%d.%d.%d.%d|", x.h-minH, x.v, len(n.gates), len(n.obs.commits))
	}
	w.stateSet[s] = true
}

func (w *World) onRecoveredPanic(err error) {
	w.ev("RECOVERED-PANIC %v", firstLine(err.Error()))
	w.probe("recovered-panic")
	w.onPanicObserved(err)
}

func firstLine(s string) string {
	for i := 0; i < len(s); i++ {
		if s[i] == '\n' {
			return s[:i]
		}
	}
	return s
}

// forwardedByMainLoop: the main loop hands a raw message to the worker only if the library's own parser makes a
// message of it.
func forwardedByMainLoop(raw *interfaces.ConsensusRawMessage) (ok bool) {
	defer func() {
		if r := recover(); r != nil {
			ok = true // the main loop itself would have panicked; not this function's business
		}
	}()
	return raw != nil && interfaces.ToConsensusMessage(raw) != nil
}

// sampleRec: one State().HeightView() call made by a consumer thread while the loops run.
type sampleRec struct {
	pre     hv // state seen by the harness at the quiescent point at which the call was started
	val     hv
	done    bool
	checked bool
	epoch   int
	step    int
}

// compactStack: the harness frames of the current stack on one line (for harness-error reports).
func compactStack() string {
	buf := make([]byte, 1<<14)
	buf = buf[:runtime.Stack(buf, false)]
	var out []string
	for _, l := range strings.Split(string(buf), "\n") {
		if strings.HasPrefix(l, "\t") && strings.Contains(l, "/lhsim/") {
			l = strings.TrimSpace(l)
			if i := strings.LastIndex(l, "/"); i >= 0 {
				l = l[i+1:]
			}
			if j := strings.Index(l, " "); j > 0 {
				l = l[:j]
			}
			out = append(out, l)
			if len(out) == 8 {
				break
			}
		}
	}
	return strings.Join(out, " < ")
}

// flushEvents closes the current event window: its lines go into the hash in sorted order.
func (w *World) flushEvents() {
	w.evMu.Lock()
	buf := w.evBuf
	w.evBuf = nil
	w.evMu.Unlock()
	if len(buf) == 0 {
		return
	}
	sort.Strings(buf)
	if os.Getenv("SIM_DEBUG_WIN") != "" {
		fmt.Fprintf(os.Stderr, "WIN %d %q\n", len(buf), buf[0])
	}
	for _, s := range buf {
		w.hasher.Write([]byte(s))
		w.hasher.Write([]byte{'\n'})
	}
}

package lhsim

import (
	"fmt"
	"os"
	"strings"
	"strconv"

	"github.com/orbs-network/lean-helix-go/services/interfaces"
	"github.com/orbs-network/lean-helix-go/spec/types/go/primitives"
	"github.com/orbs-network/lean-helix-go/spec/types/go/protocol"
)

// Byzantine adversary: a catalogue of strategies driven by the tape. Adversary code signs only with
// Byzantine / outsider keys (Signer); honest signatures enter its messages only as copied bytes.

var allStrategies = []string{
	"byz.follow",
	"byz.pp",
	"byz.self-prepare",
	"byz.pp-hiview-standalone/legit-leader",
	"byz.pp-hiview-standalone/non-leader",
	"byz.vote",
	"byz.vote-proof-no-block",
	"byz.vote-forged-proof",
	"byz.nv",
	"byz.nv-forged-votes",
	"byz.nv-omit-locks",
	"byz.nv-hash-mismatch",
	"byz.nv-foreign-votes",
	"byz.nv-stale-lock",
	"byz.foreign-instance",
	"byz.future-height",
	"byz.replay",
	"byz.replay-cross-type",
	"byz.sig-replay",
	"byz.outsider",
	"byz.bad-share",
	"byz.mutate",
	"byz.extreme-fields",
	"byz.bytes",
}

// families of strategies that work on the same part of the protocol (prefix match)
var strategyFamilies = []string{"byz.pp", "byz.vote", "byz.nv", "byz.replay", "byz.sig-replay", "byz.self-prepare", "byz.foreign", "byz.mutate"}

func drawStrategies(ch *Chooser, disabled map[string]bool) []string {
	var out []string
	if f := os.Getenv("SIM_FORCE_STRATS"); f != "" { // development aid: focus the adversary (never set by ./check)
		for _, s := range strings.Split(f, ",") {
			if !disabled[s] {
				out = append(out, s)
			}
		}
		ch.Pick("strat-mode", 4)
		ch.Pick("strat-one", len(allStrategies))
		ch.Pick("strat-two", len(allStrategies))
		ch.Pick("strat-family", len(strategyFamilies))
		return out
	}
	mode := ch.Pick("strat-mode", 4) // 0: all, 1: random half, 2: follow + one, 3: follow + proposals + two more
	one := ch.Pick("strat-one", len(allStrategies))
	two := ch.Pick("strat-two", len(allStrategies))
	fam := strategyFamilies[ch.Pick("strat-family", len(strategyFamilies))]
	for i, s := range allStrategies {
		if disabled[s] {
			continue
		}
		switch mode {
		case 0:
			out = append(out, s)
		case 1:
			if ch.Pick("strat", 2) == 1 || s == "byz.follow" {
				out = append(out, s)
			}
		case 2:
			if i == one || s == "byz.follow" {
				out = append(out, s)
			}
		case 3:
			// a focused adversary: with two dozen strategies in the catalogue a uniform draw uses each too rarely for
			// attacks that need the same few moves several times in a row
			if i == two || s == "byz.follow" || s == "byz.pp" || strings.HasPrefix(s, fam) {
				out = append(out, s)
			}
		}
	}
	return out
}

func (w *World) signer(idx int) Signer { return Signer{w, idx} }

func (w *World) seedContent(h uint64) []byte {
	for _, n := range w.honest() {
		if c, ok := n.obs.shareContent[h]; ok {
			return c
		}
	}
	for _, n := range w.honest() {
		if s, ok := n.obs.seedAt[h]; ok {
			return []byte(strconv.FormatUint(s, 10))
		}
	}
	return []byte("0")
}

// inject enqueues an adversary-made message for a tape-chosen non-empty subset of the correct live nodes.
func (w *World) inject(from int, raw *interfaces.ConsensusRawMessage, tag string, only []int) int {
	var targets []int
	if only != nil {
		targets = only
	} else {
		var live []int
		for _, n := range w.honest() {
			if n.alive {
				live = append(live, n.idx)
			}
		}
		if len(live) == 0 {
			return 0
		}
		mask := w.ch.Pick("inj-mask", 1<<uint(len(live)))
		if mask == 0 {
			mask = (1 << uint(len(live))) - 1
		}
		for i, idx := range live {
			if mask&(1<<uint(i)) != 0 {
				targets = append(targets, idx)
			}
		}
	}
	// input classes recognised at the network boundary, whatever strategy produced the message
	if m := Decode(raw); m != nil {
		if m.Kind == KPP && m.Ref.V > 0 && m.Ref.H < 1<<40 && w.isLeader(m.Sender.Id, m.Ref.H, m.Ref.V) && w.sigOK(m.Sender, m.Ref.H, m.Ref.Raw) {
			cls := "input.pp-hiview-standalone-from-leader"
			if w.disabled(cls) {
				w.probe("filtered:" + cls)
				return 0
			}
			w.use(cls)
		}
	}
	for _, to := range targets {
		if to < 0 || to >= len(w.nodes) || w.nodes[to].byz || !w.nodes[to].alive {
			continue
		}
		w.enqueue(&Flight{from: from, to: to, raw: raw, tag: tag})
	}
	w.ev("inject %s from n%d to %v : %s #%s", tag, from, targets, Decode(raw).Short(), shortHash(raw.Content))
	w.probeProofViews(Decode(raw), "byzantine")
	w.stats.Fault(tag)
	w.use(tag)
	return len(targets)
}

func (w *World) freshBlock(h uint64, author int, poison bool) *Block {
	w.nonce++
	b := &Block{H: h, Author: author, Nonce: w.nonce, Poison: poison}
	w.blocks[string(b.Hash())] = b
	return b
}

// focus picks a live correct node and returns it with its height and view.
func (w *World) focus() (*Node, uint64, uint64) {
	var live []*Node
	for _, n := range w.honest() {
		if n.alive && n.height() > 0 {
			live = append(live, n)
		}
	}
	if len(live) == 0 {
		return nil, 0, 0
	}
	n := live[w.ch.Pick("focus", len(live))]
	x := n.hv()
	return n, x.h, x.v
}

func (w *World) byzMembersAt(h uint64) []int {
	var out []int
	for _, idx := range w.committeeIdx(h) {
		if idx >= 0 && idx < w.cfg.N && w.nodes[idx].byz {
			out = append(out, idx)
		}
	}
	return out
}

// proposals seen in honest traffic for (h, v): hash -> block
func (w *World) seenProposals(h uint64, v int64) []*Msg {
	var out []*Msg
	seen := map[string]bool{}
	for _, s := range w.sent {
		m := s.msg
		if m == nil || (m.Kind != KPP && m.Kind != KNV) || m.Height() != h {
			continue
		}
		if v >= 0 && m.Ref.V != uint64(v) {
			continue
		}
		k := fmt.Sprintf("%d/%x", m.Ref.V, m.Ref.Hash)
		if !seen[k] {
			seen[k] = true
			out = append(out, m)
		}
	}
	for _, m := range w.byzProposals {
		if m.Height() == h && (v < 0 || m.Ref.V == uint64(v)) {
			k := fmt.Sprintf("%d/%x", m.Ref.V, m.Ref.Hash)
			if !seen[k] {
				seen[k] = true
				out = append(out, m)
			}
		}
	}
	return out
}

func (w *World) adversaryStep() bool {
	if len(w.cfg.Strategies) == 0 {
		return false
	}
	_, h, v := w.focus()
	if h == 0 {
		return false
	}
	byz := w.byzMembersAt(h)
	if len(byz) == 0 {
		return false
	}
	s := w.cfg.Strategies[w.ch.Pick("strategy", len(w.cfg.Strategies))]
	if aw := w.advWait; aw != nil {
		// a plan that waits for the correct nodes to reach a view
		if h != aw.h {
			w.advWait = nil
		} else if v >= aw.v {
			w.advPlan = append(w.advPlan, aw.then...)
			w.advWait = nil
			w.probe("byz-waited-plan-started")
		}
	}
	if n := w.commitFailedN; n != nil {
		// a correct node decided but could not hand the block to its consumer: it stays where it is. If the leader of
		// that view is Byzantine it proposes again to that node (another block for the same height and view).
		w.commitFailedN = nil
		w.probe("adversary-saw-failed-commit")
		if n.alive && !w.disabled("byz.pp") {
			fh, fv := n.height(), n.view()
			if l := w.keys.IdxOf(w.leader(fh, fv)); fh > 0 && l >= 0 && w.isByz(l) {
				sg := w.signer(l)
				blk := w.freshBlock(fh, l, false)
				raw := SignedRefMsg(sg, KPP, protocol.LEAN_HELIX_PREPREPARE, w.instance, fh, fv, blk.Hash(), nil, blk)
				w.rememberByzProposal(raw)
				cls := "input.pp-hiview-standalone-from-leader"
				if fv == 0 || !w.disabled(cls) {
					if fv > 0 {
						w.use(cls)
					}
					w.probe("byz-second-proposal-after-failed-commit")
					w.action("byz")
					w.ev("inject byz.pp from n%d to [%d] (second proposal after a failed commit) : %s", l, n.idx, Decode(raw).Short())
					w.stats.Fault("byz.pp")
					w.use("byz.pp")
					w.deliver(&Flight{from: l, to: n.idx, raw: raw, tag: "byz.pp"})
					return true
				}
			}
		}
	}
	if len(w.advPlan) > 0 && w.ch.Pick("follow-plan", 4) > 0 {
		// a director reached its target state: the adversary works on it for a while instead of acting at random
		s = w.advPlan[0]
		w.advPlan = w.advPlan[1:]
	}
	b := byz[w.ch.Pick("byz-who", len(byz))]
	w.action("byz")
	switch s {
	case "byz.follow":
		return w.advFollow(b, h, v)
	case "byz.pp":
		return w.advPP(b, h, 0, s)
	case "byz.self-prepare":
		return w.advSelfPrepare(b, h, v)
	case "byz.pp-hiview-standalone/legit-leader", "byz.pp-hiview-standalone/non-leader":
		return w.advPPHiView(b, h, v, s)
	case "byz.vote", "byz.vote-proof-no-block", "byz.vote-forged-proof":
		return w.advVote(b, h, v, s)
	case "byz.nv", "byz.nv-forged-votes", "byz.nv-omit-locks", "byz.nv-hash-mismatch", "byz.nv-foreign-votes", "byz.nv-stale-lock":
		return w.advNewView(b, h, v, s)
	case "byz.foreign-instance":
		return w.advForeign(b, h, v, true)
	case "byz.future-height":
		return w.advForeign(b, h, v, false)
	case "byz.replay":
		return w.advReplay(b, h, v)
	case "byz.replay-cross-type":
		return w.advCrossType(b, h, v)
	case "byz.sig-replay":
		return w.advSigReplay(b, h, v)
	case "byz.outsider":
		return w.advOutsider(h, v)
	case "byz.bad-share":
		return w.advBadShare(b, h, v)
	case "byz.mutate":
		return w.advMutate(b, h, v)
	case "byz.extreme-fields":
		return w.advExtreme(b, h, v)
	case "byz.bytes":
		return w.advBytes(b)
	}
	return false
}

// byz.follow: behave like an honest member for one message (lets quorums form around the adversary's plans).
func (w *World) advFollow(b int, h, v uint64) bool {
	props := w.seenProposals(h, -1)
	if len(props) == 0 {
		return false
	}
	p := props[w.ch.Pick("follow-prop", len(props))]
	if n := len(w.byzProposals); n > 0 && w.ch.Pick("follow-latest-byz", 2) == 1 && w.byzProposals[n-1].Height() == h {
		p = w.byzProposals[n-1] // support the adversary's own latest proposal
	}
	sg := w.signer(b)
	switch w.ch.Pick("follow-kind", 3) {
	case 0:
		if w.leader(h, p.Ref.V).Equal(sg.Id()) {
			return false
		}
		raw := SignedRefMsg(sg, KP, protocol.LEAN_HELIX_PREPARE, w.instance, h, p.Ref.V, p.Ref.Hash, nil, nil)
		return w.inject(b, raw, "byz.follow", nil) > 0
	case 1:
		share := sg.Seed(h, w.seedContent(h))
		raw := SignedRefMsg(sg, KC, protocol.LEAN_HELIX_COMMIT, w.instance, h, p.Ref.V, p.Ref.Hash, share, nil)
		return w.inject(b, raw, "byz.follow", nil) > 0
	default:
		// an honest-looking vote for the next view, to its leader
		nv := v + 1
		ld := w.keys.IdxOf(w.leader(h, nv))
		if ld < 0 || w.nodes[ld].byz {
			return false
		}
		raw := VoteMsg(SignedVote(sg, w.instance, h, nv, Proof{}), nil)
		return w.inject(b, raw, "byz.follow", []int{ld}) > 0
	}
}

func (w *World) rememberByzProposal(raw *interfaces.ConsensusRawMessage) {
	if m := Decode(raw); m != nil {
		w.byzProposals = append(w.byzProposals, m)
	}
}

// byz.pp: a Byzantine leader of view 0 proposes; repeated calls equivocate.
func (w *World) advPP(b int, h, v uint64, tag string) bool {
	sg := w.signer(b)
	if !w.leader(h, v).Equal(sg.Id()) {
		return false
	}
	poison := w.ch.Pick("pp-poison", 4) == 3
	blk := w.freshBlock(h, b, poison)
	var attach interfaces.Block = blk
	switch w.ch.Pick("pp-attach", 6) {
	case 4:
		attach = nil // missing block
	case 5:
		attach = w.freshBlock(h, b, false) // block does not match the signed hash
	}
	raw := SignedRefMsg(sg, KPP, protocol.LEAN_HELIX_PREPREPARE, w.instance, h, v, blk.Hash(), nil, attach)
	if w.ch.Pick("pp-split", 3) == 2 && attach == interfaces.Block(blk) {
		// equivocation in one breath: one correct node gets proposal A, all the others proposal B, and the adversary goes
		// on to support B (the node holding A then sees PREPAREs / COMMITs for a hash it did not accept)
		var live []int
		for _, n := range w.honest() {
			if n.alive {
				live = append(live, n.idx)
			}
		}
		if len(live) >= 2 {
			odd := live[w.ch.Pick("pp-split-odd", len(live))]
			var rest []int
			for _, i := range live {
				if i != odd {
					rest = append(rest, i)
				}
			}
			w.rememberByzProposal(raw)
			w.inject(b, raw, tag, []int{odd})
			blkB := w.freshBlock(h, b, false)
			rawB := SignedRefMsg(sg, KPP, protocol.LEAN_HELIX_PREPREPARE, w.instance, h, v, blkB.Hash(), nil, blkB)
			w.rememberByzProposal(rawB)
			w.advPlan = append(w.advPlan, "byz.follow", "byz.follow", "byz.follow", "byz.follow")
			w.probe("byz-split-proposal")
			return w.inject(b, rawB, tag, rest) > 0
		}
	}
	w.rememberByzProposal(raw)
	if poison {
		w.use("byz.poison-block")
	}
	return w.inject(b, raw, tag, nil) > 0
}

// byz.self-prepare: the Byzantine leader of a view the correct nodes have not reached yet sends, ahead of time, its own
// PREPARE for that view (a leader never prepares its own proposal), for the hash its NEW_VIEW will later carry: the
// locked block if a certificate is around, else a block it plans to propose (advNewView then uses that block).
func (w *World) advSelfPrepare(b int, h, v uint64) bool {
	sg := w.signer(b)
	tv := v + 1
	c := w.Committee(h)
	found := false
	for d := uint64(0); d < uint64(len(c)); d++ {
		if w.leader(h, tv+d).Equal(sg.Id()) {
			tv += d
			found = true
			break
		}
	}
	if !found {
		return false
	}
	var hash []byte
	var best *SentRec
	for _, s := range w.capturedProofs(h) {
		if s.msg.Vote.Proof.PP.V < tv && (best == nil || s.msg.Vote.Proof.PP.V > best.msg.Vote.Proof.PP.V) {
			best = s
		}
	}
	if best != nil {
		hash = best.msg.Vote.Proof.PP.Hash
	} else {
		if w.planned == nil {
			w.planned = map[hv]*Block{}
		}
		blk := w.planned[hv{h, tv}]
		if blk == nil {
			blk = w.freshBlock(h, b, false)
			w.planned[hv{h, tv}] = blk
		}
		hash = blk.Hash()
	}
	raw := SignedRefMsg(sg, KP, protocol.LEAN_HELIX_PREPARE, w.instance, h, tv, hash, nil, nil)
	return w.inject(b, raw, "byz.self-prepare", nil) > 0
}

// byz.pp-hiview-standalone: PREPREPARE for a view above 0 outside any NEW_VIEW.
func (w *World) advPPHiView(b int, h, v uint64, tag string) bool {
	sg := w.signer(b)
	tv := v + uint64(w.ch.Pick("hv-dv", 3))
	if tv == 0 {
		tv = 1
	}
	legit := tag == "byz.pp-hiview-standalone/legit-leader"
	if legit {
		// find a view >= max(v,1) that b leads
		c := w.Committee(h)
		found := false
		for d := uint64(0); d < uint64(len(c)); d++ {
			if w.leader(h, tv+d).Equal(sg.Id()) {
				tv += d
				found = true
				break
			}
		}
		if !found {
			return false
		}
	} else if w.leader(h, tv).Equal(sg.Id()) {
		tv++
		if w.leader(h, tv).Equal(sg.Id()) {
			return false
		}
	}
	blk := w.freshBlock(h, b, w.ch.Pick("pp-poison", 4) == 3)
	raw := SignedRefMsg(sg, KPP, protocol.LEAN_HELIX_PREPREPARE, w.instance, h, tv, blk.Hash(), nil, blk)
	w.rememberByzProposal(raw)
	if legit && tv > v && w.advWait == nil {
		// two proposals for one view: this one reaches the correct nodes ahead of time (while they are in a lower view);
		// once they are in that view the same leader sends a NEW_VIEW proposing another block
		w.advWait = &advWait{h: h, v: tv, then: []string{"byz.nv", "byz.follow", "byz.follow", "byz.follow", "byz.follow"}}
		w.decoyFor = hv{h, tv}
	}
	return w.inject(b, raw, tag, nil) > 0
}

// genuine prepared proofs seen in honest VIEW_CHANGE traffic at height h
func (w *World) capturedProofs(h uint64) []*SentRec {
	var out []*SentRec
	for _, s := range w.sent {
		if s.msg != nil && s.msg.Kind == KVC && s.msg.Vote.H == h && s.msg.Vote.Proof.Present {
			out = append(out, s)
		}
	}
	return out
}

// forgeProof assembles a prepared proof from genuine signatures found in traffic plus Byzantine ones.
func (w *World) forgeProof(b int, h, below uint64) (Proof, *Block, bool) {
	return w.forgeProofKind(b, h, below, -1)
}

func (w *World) forgeProofKind(b int, h, below uint64, kind int) (Proof, *Block, bool) {
	props := w.seenProposals(h, -1)
	var cand []*Msg
	for _, p := range props {
		if p.Ref.V < below {
			cand = append(cand, p)
		}
	}
	if len(w.avoidHash) > 0 {
		// the caller wants a certificate that competes with a known lock: another block, if there is one
		var other []*Msg
		for _, p := range cand {
			if !sameBytes(p.Ref.Hash, w.avoidHash) {
				other = append(other, p)
			}
		}
		if len(other) > 0 {
			cand = other
		}
	}
	if len(cand) == 0 {
		return Proof{}, nil, false
	}
	p := cand[w.ch.Pick("fp-prop", len(cand))]
	pr := Proof{Present: true}
	pr.PP = Ref{Type: protocol.LEAN_HELIX_PREPREPARE, Instance: w.instance, H: h, V: p.Ref.V, Hash: p.Ref.Hash}
	if p.Kind == KPP {
		pr.PPSig = p.Sender
	} else {
		pr.PPSig = p.PPSender
	}
	pr.P = Ref{Type: protocol.LEAN_HELIX_PREPARE, Instance: w.instance, H: h, V: p.Ref.V, Hash: p.Ref.Hash}
	// genuine PREPARE signatures from traffic
	for _, s := range w.sent {
		m := s.msg
		if m != nil && m.Kind == KP && m.Ref.H == h && m.Ref.V == p.Ref.V && sameBytes(m.Ref.Hash, p.Ref.Hash) {
			dup := false
			for _, x := range pr.PSigs {
				if x.Id.Equal(m.Sender.Id) {
					dup = true
				}
			}
			if !dup {
				pr.PSigs = append(pr.PSigs, m.Sender)
			}
		}
	}
	sg := w.signer(b)
	own := Sig{sg.Id(), sg.Msg(h, refBuilder(protocol.LEAN_HELIX_PREPARE, w.instance, h, p.Ref.V, p.Ref.Hash).Build().Raw())}
	if kind < 0 {
		kind = w.ch.Pick("fp-kind", 8)
	}
	if kind == 7 {
		// an "unsigned proof": two block references for a block nobody ever validated, no PREPREPARE signer, no
		// PREPARE signers
		x := w.freshBlock(h, b, w.ch.Pick("fp-poison", 2) == 1)
		pr.PP = Ref{Type: protocol.LEAN_HELIX_PREPREPARE, Instance: w.instance, H: h, V: p.Ref.V, Hash: x.Hash()}
		pr.P = Ref{Type: protocol.LEAN_HELIX_PREPARE, Instance: w.instance, H: h, V: p.Ref.V, Hash: x.Hash()}
		pr.PPSig = Sig{}
		pr.PSigs = nil
		w.use("byz.proof-unsigned")
		return pr, x, true
	}
	if kind == 6 {
		// spliced proof: genuine PREPARE signatures of view u1 under a PREPREPARE reference for the same block hash in
		// a LATER view u2 (< target) that a Byzantine member leads and signs: every signature verifies, the two
		// references disagree only in their view; it claims the block was prepared in u2
		found := false
		for u2 := p.Ref.V + 1; u2 < below && u2 < p.Ref.V+1+uint64(len(w.Committee(h))); u2++ {
			ld := w.keys.IdxOf(w.leader(h, u2))
			if ld >= 0 && ld < w.cfg.N && w.nodes[ld].byz {
				lsg := w.signer(ld)
				pr.PP = Ref{Type: protocol.LEAN_HELIX_PREPREPARE, Instance: w.instance, H: h, V: u2, Hash: p.Ref.Hash}
				pr.PPSig = Sig{lsg.Id(), lsg.Msg(h, refBuilder(protocol.LEAN_HELIX_PREPREPARE, w.instance, h, u2, p.Ref.Hash).Build().Raw())}
				if !sg.Id().Equal(lsg.Id()) {
					pr.PSigs = append(pr.PSigs, own)
				}
				found = true
				break
			}
		}
		if found {
			w.use("byz.proof-spliced-views")
			w.probe("forged-proof-spliced-views")
			return pr, w.blocks[string(p.Ref.Hash)], true
		}
		kind = 0
	}
	if kind == 5 {
		// mixed proof: genuine PREPARE signatures for the block a Byzantine leader showed around, under a
		// PREPREPARE reference for ANOTHER (never validated) block signed by that same Byzantine leader
		ld := w.keys.IdxOf(w.leader(h, p.Ref.V))
		if ld < 0 || ld >= w.cfg.N || !w.nodes[ld].byz {
			kind = 0
		} else {
			x := w.freshBlock(h, ld, w.ch.Pick("fp-poison", 2) == 1)
			lsg := w.signer(ld)
			pr.PP = Ref{Type: protocol.LEAN_HELIX_PREPREPARE, Instance: w.instance, H: h, V: p.Ref.V, Hash: x.Hash()}
			pr.PPSig = Sig{lsg.Id(), lsg.Msg(h, refBuilder(protocol.LEAN_HELIX_PREPREPARE, w.instance, h, p.Ref.V, x.Hash()).Build().Raw())}
			if !sg.Id().Equal(lsg.Id()) {
				pr.PSigs = append(pr.PSigs, own)
			}
			w.use("byz.proof-mixed-hash")
			return pr, x, true
		}
	}
	switch kind {
	case 0: // whatever genuine material exists + own signature (may or may not reach quorum)
		pr.PSigs = append(pr.PSigs, own)
	case 1: // duplicate signer to inflate
		pr.PSigs = append(pr.PSigs, own, own)
		if len(pr.PSigs) > 2 {
			pr.PSigs = append(pr.PSigs, pr.PSigs[0])
		}
	case 2: // leader listed as preparer
		pr.PSigs = append(pr.PSigs, own, pr.PPSig)
	case 3: // outsider padding
		for _, o := range w.cfg.Outsiders {
			os := w.signer(o)
			pr.PSigs = append(pr.PSigs, Sig{os.Id(), os.Msg(h, refBuilder(protocol.LEAN_HELIX_PREPARE, w.instance, h, p.Ref.V, p.Ref.Hash).Build().Raw())})
		}
		pr.PSigs = append(pr.PSigs, own)
	case 4: // forged signatures attributed to honest members
		for _, idx := range w.committeeIdx(h) {
			if !w.isByz(idx) {
				pr.PSigs = append(pr.PSigs, Sig{w.keys.ids[idx], []byte("forged-signature!")})
			}
		}
	}
	return pr, w.blocks[string(p.Ref.Hash)], true
}

func (w *World) advVote(b int, h, v uint64, tag string) bool {
	sg := w.signer(b)
	nv := v + 1 + uint64(w.ch.Pick("vote-dv", 2))
	ld := w.keys.IdxOf(w.leader(h, nv))
	if ld < 0 || w.nodes[ld].byz {
		nv++
		ld = w.keys.IdxOf(w.leader(h, nv))
		if ld < 0 || w.nodes[ld].byz {
			return false
		}
	}
	var pr Proof
	var blk interfaces.Block
	switch tag {
	case "byz.vote":
		// copy a genuine proof (and its block) from an honest vote, if any
		if caps := w.capturedProofs(h); len(caps) > 0 && w.ch.Pick("vote-copy", 2) == 1 {
			c := caps[w.ch.Pick("vote-cap", len(caps))]
			if c.msg.Vote.Proof.PP.V < nv {
				pr = c.msg.Vote.Proof
				blk = c.raw.Block
				if w.ch.Pick("vote-other-block", 4) == 3 {
					blk = w.freshBlock(h, b, false) // a genuine certificate with ANOTHER block attached to the vote
					w.use("byz.vote-genuine-proof-other-block")
				}
			}
		}
		if !pr.Present && w.ch.Pick("vote-block-no-proof", 3) == 2 {
			// the mirror image of "proof without block": a correctly signed vote with a block attached and no proof
			if props := w.seenProposals(h, -1); len(props) > 0 && w.ch.Pick("vote-known-block", 2) == 1 {
				if b := w.blocks[string(props[w.ch.Pick("vote-which-block", len(props))].Ref.Hash)]; b != nil {
					blk = b
				}
			}
			if blk == nil {
				blk = w.freshBlock(h, b, w.ch.Pick("pp-poison", 4) == 3)
			}
			w.use("byz.vote-block-no-proof")
		}
	case "byz.vote-proof-no-block":
		caps := w.capturedProofs(h)
		// the adversary controls the network: it knows which proposals never reached the leader it writes to, and
		// prefers a certificate of such a view (the receiver cannot complete or cross-check the vote from its own log)
		var unseen []*SentRec
		for _, c := range caps {
			if c.msg.Vote.Proof.PP.V < nv && !w.proposalDelivered(ld, h, c.msg.Vote.Proof.PP.V) {
				unseen = append(unseen, c)
			}
		}
		if len(unseen) > 0 {
			caps = unseen
			w.probe("byz-vote-proof-of-view-unseen-by-receiver")
		} else if p, _, ok := w.forgeProofKind(b, h, nv, 0); ok && !w.proposalDelivered(ld, h, p.PP.V) {
			pr = p
			w.probe("byz-vote-proof-of-view-unseen-by-receiver")
		}
		if pr.Present {
			// assembled above
		} else if len(caps) == 0 {
			p, _, ok := w.forgeProof(b, h, nv)
			if !ok {
				return false
			}
			pr = p
		} else {
			c := caps[w.ch.Pick("vote-cap", len(caps))]
			if c.msg.Vote.Proof.PP.V >= nv {
				return false
			}
			pr = c.msg.Vote.Proof
		}
		blk = nil
	case "byz.vote-forged-proof":
		p, bk, ok := w.forgeProof(b, h, nv+uint64(w.ch.Pick("fp-wrongview", 2)))
		if !ok {
			return false
		}
		pr = p
		if bk != nil {
			blk = bk
		}
		if w.ch.Pick("fp-otherblock", 4) == 3 {
			blk = w.freshBlock(h, b, false)
		}
	}
	raw := VoteMsg(SignedVote(sg, w.instance, h, nv, pr), blk)
	return w.inject(b, raw, tag, []int{ld}) > 0
}

// proposalDelivered: has a proposal (PREPREPARE or NEW_VIEW) for (h, v) been delivered to node idx?
func (w *World) proposalDelivered(idx int, h, v uint64) bool {
	if idx < 0 || idx >= len(w.nodes) {
		return true
	}
	for _, d := range w.nodes[idx].obs.delivered {
		m := d.msg
		if m == nil {
			continue
		}
		if (m.Kind == KPP && m.Ref.H == h && m.Ref.V == v) || (m.Kind == KNV && m.NVH == h && m.NVV == v) {
			return true
		}
	}
	return false
}

// votes for (h, v) that honest nodes addressed to anybody (the Byzantine leader reads all traffic)
func (w *World) capturedVotes(h, v uint64) []*SentRec {
	var out []*SentRec
	seen := map[string]bool{}
	for _, s := range w.sent {
		m := s.msg
		if m != nil && m.Kind == KVC && m.Vote.H == h && m.Vote.V == v && !seen[string(m.Sender.Id)] {
			seen[string(m.Sender.Id)] = true
			out = append(out, s)
		}
	}
	return out
}

func (w *World) advNewView(b int, h, v uint64, tag string) bool {
	// if the view the correct nodes are in is led by a Byzantine member, that member acts
	cv := v
	if cv == 0 {
		cv = 1
	}
	if l := w.keys.IdxOf(w.leader(h, cv)); l >= 0 && l < w.cfg.N && w.nodes[l].byz {
		b = l
	}
	sg := w.signer(b)
	// a view >= max(v,1) that b leads
	tv := v
	if tv == 0 {
		tv = 1
	}
	c := w.Committee(h)
	found := false
	for d := uint64(0); d < uint64(len(c)); d++ {
		if w.leader(h, tv+d).Equal(sg.Id()) {
			tv += d
			found = true
			break
		}
	}
	if !found {
		return false
	}
	var votes []*protocol.ViewChangeMessageContentBuilder
	var best *SentRec
	caps := w.capturedVotes(h, tv)
	for _, s := range caps {
		if tag == "byz.nv-omit-locks" && s.msg.Vote.Proof.Present {
			continue
		}
		votes = append(votes, RawVote(s.msg.Vote.Raw))
		if s.msg.Vote.Proof.Present && (best == nil || s.msg.Vote.Proof.PP.V > best.msg.Vote.Proof.PP.V) {
			best = s
		}
	}
	ownProof := Proof{}
	var staleBlk interfaces.Block
	if tag == "byz.nv-stale-lock" {
		// the leader's own vote carries an older genuine prepared proof (copied from an honest vote, or assembled
		// from genuine PREPARE signatures) and the NEW_VIEW re-proposes that older block. A certificate for the block
		// the honest votes are locked on would change nothing: one for ANOTHER block is preferred.
		if best != nil {
			w.avoidHash = best.msg.Vote.Proof.PP.Hash
			defer func() { w.avoidHash = nil }()
		}
		src := w.ch.Pick("stale-source", 4) // 0 copy a genuine older proof, 1 assemble one, 2 mixed-hash, 3 spliced views
		if caps := w.capturedProofs(h); len(caps) > 0 && src == 0 {
			var other []*SentRec
			for _, c := range caps {
				if best == nil || !sameBytes(c.msg.Vote.Proof.PP.Hash, best.msg.Vote.Proof.PP.Hash) {
					other = append(other, c)
				}
			}
			if len(other) > 0 {
				caps = other
			}
			c := caps[w.ch.Pick("stale-cap", len(caps))]
			if c.msg.Vote.Proof.PP.V < tv {
				ownProof, staleBlk = c.msg.Vote.Proof, c.raw.Block
			}
		}
		if !ownProof.Present {
			switch src {
			case 2:
				if p, bk, ok := w.forgeProofKind(b, h, tv, 5); ok && bk != nil {
					ownProof, staleBlk = p, bk
				}
			case 3: // an old certificate dressed up as one of a later view (spliced references)
				if p, bk, ok := w.forgeProofKind(b, h, tv, 6); ok && bk != nil {
					ownProof, staleBlk = p, bk
				}
			}
		}
		if !ownProof.Present {
			if p, bk, ok := w.forgeProofKind(b, h, tv, 0); ok && bk != nil {
				ownProof, staleBlk = p, bk
			}
		}
		if !ownProof.Present {
			return false
		}
	}
	votes = append(votes, SignedVote(sg, w.instance, h, tv, ownProof))
	for _, ob := range w.byzMembersAt(h) {
		if ob != b {
			votes = append(votes, SignedVote(w.signer(ob), w.instance, h, tv, Proof{}))
		}
	}
	switch tag {
	case "byz.nv-forged-votes", "byz.nv-omit-locks":
		// pad with votes attributed to honest members: garbage or missing signatures
		have := map[string]bool{}
		for _, s := range caps {
			if !(tag == "byz.nv-omit-locks" && s.msg.Vote.Proof.Present) {
				have[string(s.msg.Sender.Id)] = true
			}
		}
		for _, idx := range w.committeeIdx(h) {
			if w.isByz(idx) || have[string(w.keys.ids[idx])] {
				continue
			}
			sig := []byte("forged-signature!")
			if w.ch.Pick("nv-nosig", 2) == 1 {
				sig = nil
			}
			votes = append(votes, ForgedVote(w.keys.ids[idx], sig, w.instance, h, tv, Proof{}))
		}
	case "byz.nv-foreign-votes":
		// votes of another view / height / duplicates
		for _, s := range w.sent {
			m := s.msg
			if m != nil && m.Kind == KVC && (m.Vote.V != tv || m.Vote.H != h) && len(votes) < 12 {
				votes = append(votes, RawVote(m.Vote.Raw))
			}
		}
		if len(votes) > 0 && w.ch.Pick("nv-dup", 2) == 1 {
			votes = append(votes, votes[0])
		}
	}
	// proposal
	var blk interfaces.Block
	var hash []byte
	if tag == "byz.nv-stale-lock" {
		blk, hash = staleBlk, ownProof.PP.Hash
	} else if best != nil && tag != "byz.nv-omit-locks" && w.ch.Pick("nv-honour-lock", 4) != 3 {
		blk = best.raw.Block
		hash = best.msg.Vote.Proof.PP.Hash
	} else if pb := w.planned[hv{h, tv}]; pb != nil && best == nil {
		blk, hash = pb, pb.Hash() // the block announced earlier by the leader's own early PREPARE (byz.self-prepare)
	} else {
		pz := w.ch.Pick("pp-poison", 4)
		fb := w.freshBlock(h, b, pz == 3 || (pz == 2 && w.decoyFor == hv{h, tv}))
		blk, hash = fb, fb.Hash()
	}
	if tag == "byz.nv-hash-mismatch" {
		switch w.ch.Pick("nv-mismatch", 4) {
		case 0: // embedded header commits to another hash than the block / proof
			hash = w.freshBlock(h, b, false).Hash()
		case 1: // attached block differs
			blk = w.freshBlock(h, b, false)
		case 2:
			blk = nil
		case 3: // the header re-uses the hash of a proposal the nodes accepted in an earlier view; another block is attached
			if props := w.seenProposals(h, -1); len(props) > 0 {
				hash = props[w.ch.Pick("nv-known-hash", len(props))].Ref.Hash
				w.probe("nv-known-hash-other-block")
			}
			blk = w.freshBlock(h, b, false)
		}
	}
	ppHdr := refBuilder(protocol.LEAN_HELIX_PREPREPARE, w.instance, h, tv, hash)
	ppSig := Sig{sg.Id(), sg.Msg(h, ppHdr.Build().Raw())}
	// order of votes is a tape decision
	perm := w.ch.Perm("nv-order", len(votes))
	if tag == "byz.nv-stale-lock" && w.ch.Pick("stale-last", 2) == 1 {
		// keep the generated order: honest votes first, the stale one after them
		for i := range perm {
			perm[i] = i
		}
	}
	ordered := make([]*protocol.ViewChangeMessageContentBuilder, len(votes))
	for i, j := range perm {
		ordered[i] = votes[j]
	}
	raw := NewViewMsg(sg, w.instance, h, tv, ordered, ppHdr, ppSig, blk)
	w.rememberByzProposal(raw)
	if tag == "byz.nv-stale-lock" {
		var all []int
		for _, n := range w.honest() {
			if n.alive {
				all = append(all, n.idx)
			}
		}
		return w.inject(b, raw, tag, all) > 0
	}
	return w.inject(b, raw, tag, nil) > 0
}

// byz.replay: re-deliver a captured honest message to other recipients / later.
func (w *World) advReplay(b int, h, v uint64) bool {
	if len(w.sent) == 0 {
		return false
	}
	k := len(w.sent)
	lo := 0
	if k > 64 {
		lo = k - 64
	}
	s := w.sent[lo+w.ch.Pick("replay-which", k-lo)]
	return w.inject(s.from, s.raw, "byz.replay", nil) > 0
}

// byz.replay-cross-type: a genuine header+signature put into another container.
func (w *World) advCrossType(b int, h, v uint64) bool {
	var cand []*SentRec
	for _, s := range w.sent {
		if s.msg != nil && s.msg.Height() == h && (s.msg.Kind == KP || s.msg.Kind == KC || s.msg.Kind == KPP) {
			cand = append(cand, s)
		}
	}
	if len(cand) == 0 {
		return false
	}
	s := cand[w.ch.Pick("xt-which", len(cand))]
	m := s.msg
	hdr := protocol.BlockRefBuilderFromRaw(m.Ref.Raw)
	var raw *interfaces.ConsensusRawMessage
	switch m.Kind {
	case KP, KPP: // as COMMIT, with a share of that sender copied from any of its genuine commits at this height
		var share []byte
		for _, x := range w.sent {
			if x.msg != nil && x.msg.Kind == KC && x.msg.Ref.H == h && x.msg.Sender.Id.Equal(m.Sender.Id) {
				share = x.msg.Share
			}
		}
		if share == nil {
			share = []byte("no-share")
		}
		raw = BuildRefMsg(KC, hdr, m.Sender, share, nil)
	case KC: // as PREPARE
		raw = BuildRefMsg(KP, hdr, m.Sender, nil, nil)
	}
	return w.inject(s.from, raw, "byz.replay-cross-type", nil) > 0
}

func (w *World) advOutsider(h, v uint64) bool {
	if len(w.cfg.Outsiders) == 0 {
		return false
	}
	o := w.cfg.Outsiders[w.ch.Pick("outsider", len(w.cfg.Outsiders))]
	sg := w.signer(o)
	props := w.seenProposals(h, -1)
	var hash []byte
	pv := v
	if len(props) > 0 {
		p := props[w.ch.Pick("out-prop", len(props))]
		hash, pv = p.Ref.Hash, p.Ref.V
	} else {
		hash = w.freshBlock(h, o, false).Hash()
	}
	switch w.ch.Pick("out-kind", 3) {
	case 0:
		return w.inject(o, SignedRefMsg(sg, KP, protocol.LEAN_HELIX_PREPARE, w.instance, h, pv, hash, nil, nil), "byz.outsider", nil) > 0
	case 1:
		return w.inject(o, SignedRefMsg(sg, KC, protocol.LEAN_HELIX_COMMIT, w.instance, h, pv, hash, sg.Seed(h, w.seedContent(h)), nil), "byz.outsider", nil) > 0
	default:
		nv := v + 1
		ld := w.keys.IdxOf(w.leader(h, nv))
		if ld < 0 || w.nodes[ld].byz {
			return false
		}
		return w.inject(o, VoteMsg(SignedVote(sg, w.instance, h, nv, Proof{}), nil), "byz.outsider", []int{ld}) > 0
	}
}

func (w *World) advBadShare(b int, h, v uint64) bool {
	props := w.seenProposals(h, -1)
	if len(props) == 0 {
		return false
	}
	p := props[w.ch.Pick("bs-prop", len(props))]
	sg := w.signer(b)
	var share []byte
	switch w.ch.Pick("bs-kind", 3) {
	case 0:
		share = sg.Seed(h, []byte("wrong-seed"))
	case 1:
		share = sg.Seed(h+1, w.seedContent(h))
	default:
		share = nil
	}
	return w.inject(b, SignedRefMsg(sg, KC, protocol.LEAN_HELIX_COMMIT, w.instance, h, p.Ref.V, p.Ref.Hash, share, nil), "byz.bad-share", nil) > 0
}

// byz.sig-replay: the genuine signature bytes (and seed share) a correct member produced for one message of this
// height, replayed under ANOTHER signed header that names that member as sender: a PREPARE / COMMIT for the
// adversary's own latest proposal (or any other known proposal) "from" every correct member whose signature was seen.
func (w *World) advSigReplay(b int, h, v uint64) bool {
	props := w.seenProposals(h, -1)
	if len(props) == 0 {
		return false
	}
	p := props[w.ch.Pick("sr-prop", len(props))]
	if n := len(w.byzProposals); n > 0 && w.byzProposals[n-1].Height() == h && w.ch.Pick("sr-own", 2) == 1 {
		p = w.byzProposals[n-1]
	}
	kind := []Kind{KP, KC}[w.ch.Pick("sr-kind", 2)]
	typ := protocol.LEAN_HELIX_PREPARE
	if kind == KC {
		typ = protocol.LEAN_HELIX_COMMIT
	}
	sent := 0
	seen := map[string]bool{}
	for _, s := range w.sent {
		m := s.msg
		if m == nil || m.Height() != h || (m.Kind != KP && m.Kind != KC && m.Kind != KPP) || w.isByz(s.from) || seen[string(m.Sender.Id)] {
			continue
		}
		if sameBytes(m.Ref.Hash, p.Ref.Hash) && m.Ref.V == p.Ref.V && m.Kind == kind {
			continue // that would be the genuine message itself
		}
		seen[string(m.Sender.Id)] = true
		var share []byte
		if kind == KC {
			// a genuine share of that member for this height, if one was seen (a share signs the height's seed only)
			for _, c := range w.sent {
				if c.msg != nil && c.msg.Kind == KC && c.msg.Ref.H == h && c.msg.Sender.Id.Equal(m.Sender.Id) && c.from == s.from {
					share = c.msg.Share
				}
			}
		}
		raw := BuildRefMsg(kind, refBuilder(typ, w.instance, h, p.Ref.V, p.Ref.Hash), Sig{m.Sender.Id, m.Sender.Sig}, share, nil)
		if w.inject(b, raw, "byz.sig-replay", nil) > 0 {
			sent++
		}
		if sent >= 3 {
			break
		}
	}
	return sent > 0
}

// byz.mutate: decode a captured message, change one field or one signature, re-encode, optionally re-sign
// with a Byzantine key.
func (w *World) advMutate(b int, h, v uint64) bool {
	if len(w.sent) == 0 {
		return false
	}
	k := len(w.sent)
	lo := 0
	if k > 64 {
		lo = k - 64
	}
	s := w.sent[lo+w.ch.Pick("mut-which", k-lo)]
	raw := w.mutateMsg(b, s)
	if raw == nil {
		return false
	}
	return w.inject(s.from, raw, "byz.mutate", nil) > 0
}

func (w *World) mutateMsg(b int, s *SentRec) *interfaces.ConsensusRawMessage {
	m := s.msg
	if m == nil {
		return nil
	}
	sg := w.signer(b)
	field := w.ch.Pick("mut-field", 10)
	resign := w.ch.Pick("mut-resign", 3) == 2
	if m.Kind != KNV {
		field %= 8
	}
	switch m.Kind {
	case KPP, KP, KC:
		r := m.Ref
		t, inst, hh, vv, hash := r.Type, r.Instance, r.H, r.V, cp(r.Hash)
		sender := m.Sender
		share := m.Share
		blk := s.raw.Block
		switch field {
		case 0:
			t = []protocol.MessageType{protocol.LEAN_HELIX_PREPREPARE, protocol.LEAN_HELIX_PREPARE, protocol.LEAN_HELIX_COMMIT, protocol.LEAN_HELIX_VIEW_CHANGE}[w.ch.Pick("mut-type", 4)]
		case 1:
			inst++
		case 2:
			hh += uint64(1 + w.ch.Pick("mut-dh", 2))
		case 3:
			vv += uint64(1 + w.ch.Pick("mut-dv", 2))
		case 4:
			if len(hash) > 0 {
				hash[0] ^= 1
			}
		case 5: // claimed sender changed, signature kept
			ci := w.committeeIdx(r.H)
			sender = Sig{w.keys.ids[ci[w.ch.Pick("mut-sender", len(ci))]], sender.Sig}
		case 6: // signature of another message of the same sender
			for _, x := range w.sent {
				if x != s && x.msg != nil && x.msg.Sender.Id.Equal(sender.Id) && w.ch.Pick("mut-sigswap", 2) == 1 {
					sender = Sig{sender.Id, x.msg.Sender.Sig}
					break
				}
			}
		case 7:
			if m.Kind == KC {
				share = []byte("bad-share")
			} else {
				blk = nil
			}
		}
		hdr := refBuilder(t, inst, hh, vv, hash)
		if resign {
			sender = Sig{sg.Id(), sg.Msg(hh, hdr.Build().Raw())}
			if m.Kind == KC {
				share = sg.Seed(hh, w.seedContent(hh))
			}
		}
		return BuildRefMsg(m.Kind, hdr, sender, share, blk)
	case KVC:
		vt := m.Vote
		t, inst, hh, vv, pr := vt.Type, vt.Instance, vt.H, vt.V, vt.Proof
		sender := vt.Sender
		blk := s.raw.Block
		switch field {
		case 0:
			t = protocol.LEAN_HELIX_NEW_VIEW
		case 1:
			inst++
		case 2:
			hh++
		case 3:
			vv += uint64(1 + w.ch.Pick("mut-dv", 2))
		case 4:
			if pr.Present && len(pr.PP.Hash) > 0 {
				pr.PP.Hash = cp(pr.PP.Hash)
				pr.PP.Hash[0] ^= 1
			} else {
				return nil
			}
		case 5:
			ci := w.committeeIdx(vt.H)
			sender = Sig{w.keys.ids[ci[w.ch.Pick("mut-sender", len(ci))]], sender.Sig}
		case 6:
			if pr.Present && len(pr.PSigs) > 0 {
				pr.PSigs = pr.PSigs[:len(pr.PSigs)-1]
			} else {
				return nil
			}
		case 7:
			blk = nil
		}
		hdr := voteHeaderBuilder(t, inst, hh, vv, pr)
		if resign {
			sender = Sig{sg.Id(), sg.Msg(hh, hdr.Build().Raw())}
		}
		return VoteMsg(&protocol.ViewChangeMessageContentBuilder{SignedHeader: hdr, Sender: sigBuilder(sender)}, blk)
	case KNV:
		// change one aspect of an honest NEW_VIEW; the header signature then no longer matches unless re-signed
		var votes []*protocol.ViewChangeMessageContentBuilder
		for _, vt := range m.Votes {
			votes = append(votes, RawVote(vt.Raw))
		}
		hh, vv := m.NVH, m.NVV
		ppHash := cp(m.Ref.Hash)
		ppV := m.Ref.V
		blk := s.raw.Block
		switch field {
		case 0:
			if len(votes) > 0 {
				votes = votes[1:]
			}
		case 1:
			if len(votes) > 0 {
				votes = append(votes, votes[0])
			}
		case 2:
			hh++
		case 3:
			vv++
		case 4:
			if len(ppHash) > 0 {
				ppHash[0] ^= 1
			} else {
				ppHash = []byte{1}
			}
		case 5:
			ppV++
		case 6:
			blk = w.freshBlock(m.NVH, b, false)
		case 7:
			if known := w.blocks[string(m.Ref.Hash)]; known != nil && (s.raw.Block == nil || !sameBytes(asBlock(s.raw.Block).Hash(), m.Ref.Hash)) {
				// the unsigned block part swapped for the block the signed hash commits to (a NEW_VIEW that honest
				// members rejected for its attachment becomes acceptable; every signature in it is genuine)
				blk = known
				w.use("byz.nv-attachment-repaired")
			} else {
				blk = nil
			}
		case 8:
			// the part of a NEW_VIEW its header signature does not cover: the embedded proposal is swapped for another
			// block with a matching hash; the proposal's own signature (kept) is then not valid
			nb := w.freshBlock(m.NVH, b, false)
			blk, ppHash = nb, nb.Hash()
			w.use("byz.nv-embedded-proposal-swapped")
		}
		ppHdr := refBuilder(protocol.LEAN_HELIX_PREPREPARE, m.Ref.Instance, m.Ref.H, ppV, ppHash)
		ppSig := m.PPSender
		if field == 9 {
			// only the signature of the embedded proposal is damaged; everything else is genuine
			sig := cp(ppSig.Sig)
			if len(sig) > 0 {
				sig[len(sig)-1] ^= 1
			} else {
				sig = []byte{1}
			}
			ppSig = Sig{ppSig.Id, sig}
			w.use("byz.nv-embedded-proposal-signature-damaged")
		}
		hdr := &protocol.NewViewHeaderBuilder{MessageType: protocol.LEAN_HELIX_NEW_VIEW, InstanceId: primitives.InstanceId(m.NVInstance), BlockHeight: primitives.BlockHeight(hh), View: primitives.View(vv), ViewChangeConfirmations: votes}
		sender := m.Sender
		if resign {
			sender = Sig{sg.Id(), sg.Msg(hh, hdr.Build().Raw())}
			ppSig = Sig{sg.Id(), sg.Msg(m.Ref.H, ppHdr.Build().Raw())}
		}
		nv := &protocol.NewViewMessageContentBuilder{SignedHeader: hdr, Sender: sigBuilder(sender), Message: &protocol.PreprepareContentBuilder{SignedHeader: ppHdr, Sender: sigBuilder(ppSig)}}
		return &interfaces.ConsensusRawMessage{Content: wrapContent(KNV, nv), Block: blk}
	}
	return nil
}

var extremeValues = []uint64{1 << 31, 1<<31 - 1, 1 << 32, 1<<32 + 1, 1 << 63, 1<<63 - 1, 1<<63 + 1, ^uint64(0), ^uint64(0) - 1}

// byz.extreme-fields: structurally valid messages with extreme views / heights / empty ids and hashes.
func (w *World) advExtreme(b int, h, v uint64) bool {
	sg := w.signer(b)
	x := extremeValues[w.ch.Pick("ext-val", len(extremeValues))]
	hh, vv := h, v
	cls := "view"
	if w.ch.Pick("ext-which", 3) == 2 {
		hh = x
		cls = "height"
	} else {
		vv = x
	}
	w.use("input.extreme-" + cls)
	blk := w.freshBlock(hh, b, false)
	var raw *interfaces.ConsensusRawMessage
	switch w.ch.Pick("ext-kind", 6) {
	case 0:
		raw = SignedRefMsg(sg, KPP, protocol.LEAN_HELIX_PREPREPARE, w.instance, hh, vv, blk.Hash(), nil, blk)
	case 1:
		raw = SignedRefMsg(sg, KP, protocol.LEAN_HELIX_PREPARE, w.instance, hh, vv, blk.Hash(), nil, nil)
	case 2:
		raw = SignedRefMsg(sg, KC, protocol.LEAN_HELIX_COMMIT, w.instance, hh, vv, blk.Hash(), sg.Seed(hh, w.seedContent(hh)), nil)
	case 3:
		raw = VoteMsg(SignedVote(sg, w.instance, hh, vv, Proof{}), nil)
	case 4:
		ppHdr := refBuilder(protocol.LEAN_HELIX_PREPREPARE, w.instance, hh, vv, blk.Hash())
		raw = NewViewMsg(sg, w.instance, hh, vv, []*protocol.ViewChangeMessageContentBuilder{SignedVote(sg, w.instance, hh, vv, Proof{})}, ppHdr, Sig{sg.Id(), sg.Msg(hh, ppHdr.Build().Raw())}, blk)
	case 5: // empty id / empty hash
		hdr := refBuilder(protocol.LEAN_HELIX_PREPARE, w.instance, h, v, nil)
		raw = BuildRefMsg(KP, hdr, Sig{nil, nil}, nil, nil)
		w.use("input.empty-fields")
	}
	return w.inject(b, raw, "byz.extreme-fields", nil) > 0
}

// byz.bytes: bit flips, truncation, union-tag tampering, random bytes.
func (w *World) advBytes(b int) bool {
	var base []byte
	if len(w.sent) > 0 && w.ch.Pick("bytes-fromcap", 4) > 0 {
		k := len(w.sent)
		lo := 0
		if k > 32 {
			lo = k - 32
		}
		base = cp(w.sent[lo+w.ch.Pick("bytes-which", k-lo)].raw.Content)
	}
	cls := ""
	switch w.ch.Pick("bytes-kind", 5) {
	case 0:
		cls = "random"
		n := w.ch.Pick("bytes-len", 64)
		base = make([]byte, n)
		for i := range base {
			base[i] = byte(w.ch.Pick("byte", 256))
		}
	case 1:
		cls = "truncate"
		if len(base) == 0 {
			return false
		}
		base = base[:w.ch.Pick("bytes-cut", len(base))]
	case 2:
		cls = "bitflip"
		if len(base) == 0 {
			return false
		}
		for i := 0; i <= w.ch.Pick("bytes-nflips", 3); i++ {
			base[w.ch.Pick("bytes-pos", len(base))] ^= byte(1 << uint(w.ch.Pick("bytes-bit", 8)))
		}
	case 3:
		cls = "union-tag"
		if len(base) < 2 {
			return false
		}
		base[0] = byte(5 + w.ch.Pick("bytes-tag", 250))
	case 4:
		cls = "empty"
		base = nil
	}
	w.use("input.bytes-" + cls)
	raw := &interfaces.ConsensusRawMessage{Content: base}
	return w.inject(b, raw, "byz.bytes", nil) > 0
}

// byz.foreign-instance / byz.future-height: well-signed messages of a Byzantine member for the next height (they go
// through the future cache) and / or for another instance id.
func (w *World) advForeign(b int, h, v uint64, foreign bool) bool {
	sg := w.signer(b)
	inst := w.instance
	tag := "byz.future-height"
	if foreign {
		inst++
		tag = "byz.foreign-instance"
	}
	hh := h + uint64(w.ch.Pick("fi-dh", 2))
	if !foreign && hh == h {
		hh = h + 1
	}
	// prefer the frontier height when some correct node lags behind it: for the laggard this is a future height
	// (cache path) for which real proposals already exist
	var top uint64
	var laggards []int
	for _, n := range w.honest() {
		if n.alive && n.height() > top {
			top = n.height()
		}
	}
	for _, n := range w.honest() {
		if n.alive && n.height() > 0 && n.height() < top {
			laggards = append(laggards, n.idx)
		}
	}
	toLaggards := len(laggards) > 0 && w.ch.Pick("fi-laggards", 2) == 1
	if toLaggards {
		hh = top
	}
	var hash []byte
	if props := w.seenProposals(hh, -1); len(props) > 0 {
		hash = props[w.ch.Pick("fi-prop", len(props))].Ref.Hash
	} else {
		hash = w.freshBlock(hh, b, false).Hash()
	}
	vv := uint64(w.ch.Pick("fi-v", 2))
	if props := w.seenProposals(hh, -1); len(props) > 0 && w.ch.Pick("fi-match-view", 3) > 0 {
		p := props[w.ch.Pick("fi-prop2", len(props))]
		hash, vv = p.Ref.Hash, p.Ref.V
	}
	var raw *interfaces.ConsensusRawMessage
	switch w.ch.Pick("fi-kind", 4) {
	case 0:
		blk := w.blocks[string(hash)]
		var attach interfaces.Block
		if blk != nil {
			attach = blk
		}
		raw = SignedRefMsg(sg, KPP, protocol.LEAN_HELIX_PREPREPARE, inst, hh, vv, hash, nil, attach)
	case 1:
		raw = SignedRefMsg(sg, KP, protocol.LEAN_HELIX_PREPARE, inst, hh, vv, hash, nil, nil)
	case 2:
		raw = SignedRefMsg(sg, KC, protocol.LEAN_HELIX_COMMIT, inst, hh, vv, hash, sg.Seed(hh, w.seedContent(hh)), nil)
	default:
		raw = VoteMsg(SignedVote(sg, inst, hh, vv+1, Proof{}), nil)
	}
	if toLaggards {
		return w.inject(b, raw, tag, laggards) > 0
	}
	return w.inject(b, raw, tag, nil) > 0
}

package lhsim

import (
	"fmt"
	"math/rand/v2"
)

// Decision is one recorded nondeterministic choice. Every choice of a run (configuration, scheduling,
// faults, adversary constructions) goes through Chooser.Pick, so a run is a pure function of its tape.
type Decision struct {
	L string `json:"l"`
	N int    `json:"n"`
	V int    `json:"v"`
}

type Chooser struct {
	rng       *rand.Rand
	replaying bool
	strict    bool // label / arity mismatch is a divergence
	in        []Decision
	pos       int
	Rec       []Decision
	Diverged  string
	seed      uint64
	preset    []int // search mode: values for the first picks (enumeration of a dimension by run index)
}

func NewSearchChooser(seed uint64, run uint64) *Chooser {
	return &Chooser{rng: rand.New(rand.NewPCG(seed, run*0x9E3779B97F4A7C15+0x1234567)), seed: seed}
}

func NewReplayChooser(tape []Decision, strict bool) *Chooser {
	return &Chooser{replaying: true, strict: strict, in: tape}
}

// Pick returns a value in [0,n). 0 is always the most benign alternative.
func (c *Chooser) Pick(label string, n int) int {
	if n <= 0 {
		panic("Pick with n<=0: " + label)
	}
	var v int
	if c.replaying {
		if c.pos < len(c.in) {
			d := c.in[c.pos]
			c.pos++
			if c.strict && (d.L != label || d.N != n) && c.Diverged == "" {
				c.Diverged = fmt.Sprintf("decision %d: tape has (%s,%d) but run asks (%s,%d)", c.pos-1, d.L, d.N, label, n)
			}
			v = d.V % n
			if v < 0 {
				v = -v
			}
		} else {
			v = 0
		}
	} else if len(c.preset) > 0 {
		v = c.preset[0] % n
		c.preset = c.preset[1:]
	} else {
		if n == 1 {
			v = 0
		} else {
			v = c.rng.IntN(n)
		}
	}
	c.Rec = append(c.Rec, Decision{label, n, v})
	return v
}

// Chance is true with probability permille/1000; value 0 on the tape always means "no".
func (c *Chooser) Chance(label string, permille int) bool {
	if permille <= 0 {
		return false
	}
	return c.Pick(label, 1000) >= 1000-permille
}

// Range returns a value in [lo,hi].
func (c *Chooser) Range(label string, lo, hi int) int {
	if hi < lo {
		hi = lo
	}
	return lo + c.Pick(label, hi-lo+1)
}

// Perm returns a permutation of 0..n-1; the all-zero tape gives the identity.
func (c *Chooser) Perm(label string, n int) []int {
	p := make([]int, n)
	for i := range p {
		p[i] = i
	}
	for i := 0; i < n-1; i++ {
		j := i + c.Pick(label, n-i)
		p[i], p[j] = p[j], p[i]
	}
	return p
}

// Preset fixes the values of the next picks (search mode only): used to enumerate one dimension by run index.
func (c *Chooser) Preset(vals ...int) {
	if !c.replaying {
		c.preset = append(c.preset, vals...)
	}
}

// Reseed restarts the search stream from (seed, x), so that runs sharing x draw the same remaining decisions.
// No effect in replay mode (the tape already holds the values).
func (c *Chooser) Reseed(x uint64) {
	if !c.replaying {
		c.rng = rand.New(rand.NewPCG(c.seed, x*0x9E3779B97F4A7C15+0x7654321))
	}
}

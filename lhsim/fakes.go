package lhsim

import (
	"bytes"
	"context"
	"crypto/sha256"
	"encoding/binary"
	"errors"
	"fmt"
	"sort"
	"time"

	"github.com/orbs-network/lean-helix-go/services/interfaces"
	"github.com/orbs-network/lean-helix-go/services/storage"
	"github.com/orbs-network/lean-helix-go/spec/types/go/primitives"
	"github.com/orbs-network/lean-helix-go/spec/types/go/protocol"
	"github.com/orbs-network/lean-helix-go/state"
	"github.com/orbs-network/scribe/log"
)

// ---------------------------------------------------------------------------------------------
// Keys: unforgeable-signature oracle. A signature is a keyed hash under the signer's secret; harness
// code that plays the adversary only ever gets signers bound to Byzantine / outsider identities.

const (
	domMsg  = "M"
	domSeed = "S"
	domAgg  = "A"
)

type Keys struct {
	ids     []primitives.MemberId
	secrets [][]byte
	master  []byte
	index   map[string]int
	// shareContent remembers which (height, content) a seed share was made for, so that the aggregate
	// can be a function of (height, content) only — threshold-signature behaviour.
	shareContent map[string][]byte
}

func NewKeys(seed uint64, n int) *Keys { return NewKeysShaped(seed, n, 0) }

func NewKeysShaped(seed uint64, n int, shape int) *Keys {
	k := &Keys{index: map[string]int{}, shareContent: map[string][]byte{}}
	for i := 0; i < n; i++ {
		id := primitives.MemberId(fmt.Sprintf("m%02d", i))
		switch shape {
		case 1:
			id = primitives.MemberId(fmt.Sprintf("node%02d-a1b2c3d4e5f6a7", i)) // 20 bytes, first 4 in common
		case 2:
			id = primitives.MemberId(fmt.Sprintf("member-%c", 'A'+i)) // differ in the last byte only
		}
		k.ids = append(k.ids, id)
		s := sha256.Sum256([]byte(fmt.Sprintf("secret|%d|%d", seed, i)))
		k.secrets = append(k.secrets, s[:])
		k.index[string(id)] = i
	}
	m := sha256.Sum256([]byte(fmt.Sprintf("master|%d", seed)))
	k.master = m[:]
	return k
}

// addMember gives a key to one more identity (synthetic committees of the block-proof scenario).
func (k *Keys) addMember(seed uint64, id primitives.MemberId) int {
	if i, ok := k.index[string(id)]; ok {
		return i
	}
	i := len(k.ids)
	k.ids = append(k.ids, id)
	s := sha256.Sum256([]byte(fmt.Sprintf("secret|%d|%s", seed, string(id))))
	k.secrets = append(k.secrets, s[:])
	k.index[string(id)] = i
	return i
}

func mac(secret []byte, dom string, height uint64, content []byte) []byte {
	h := sha256.New()
	h.Write(secret)
	h.Write([]byte(dom))
	var b [8]byte
	binary.LittleEndian.PutUint64(b[:], height)
	h.Write(b[:])
	h.Write(content)
	return h.Sum(nil)[:16]
}

func (k *Keys) IdxOf(id primitives.MemberId) int {
	if i, ok := k.index[string(id)]; ok {
		return i
	}
	return -1
}

func (k *Keys) SignMsg(i int, height uint64, content []byte) []byte {
	return mac(k.secrets[i], domMsg, height, content)
}

func (k *Keys) SignSeed(i int, height uint64, content []byte) []byte {
	s := mac(k.secrets[i], domSeed, height, content)
	k.shareContent[string(s)] = append([]byte(nil), content...)
	return s
}

func (k *Keys) MsgSigValid(id primitives.MemberId, height uint64, content []byte, sig []byte) bool {
	i := k.IdxOf(id)
	if i < 0 {
		return false
	}
	return bytes.Equal(mac(k.secrets[i], domMsg, height, content), sig)
}

func (k *Keys) SeedShareValid(id primitives.MemberId, height uint64, content []byte, sig []byte) bool {
	i := k.IdxOf(id)
	if i < 0 {
		return false
	}
	return bytes.Equal(mac(k.secrets[i], domSeed, height, content), sig)
}

func (k *Keys) AggSig(height uint64, content []byte) []byte {
	return mac(k.master, domAgg, height, content)
}

// KeyManager fake bound to one identity.
type KeyManager struct {
	w   *World
	idx int
}

func (km *KeyManager) SignConsensusMessage(ctx context.Context, blockHeight primitives.BlockHeight, content []byte) primitives.Signature {
	return km.w.keys.SignMsg(km.idx, uint64(blockHeight), content)
}

func (km *KeyManager) VerifyConsensusMessage(blockHeight primitives.BlockHeight, content []byte, sender *protocol.SenderSignature) error {
	if sender == nil {
		return errors.New("nil sender")
	}
	ok := km.w.keys.MsgSigValid(sender.MemberId(), uint64(blockHeight), content, sender.Signature())
	km.w.callCancel.verify(km.idx)
	if h := km.w.kmHold; h != nil && h.node == km.idx && h.count > 0 {
		// a slow key manager: this consumer thread's validation call is held here (blockproof.go)
		h.count--
		if h.count == 0 {
			h.parked = true
			<-h.ch
		}
	}
	if !ok {
		return errors.New("bad signature")
	}
	return nil
}

func (km *KeyManager) SignRandomSeed(ctx context.Context, blockHeight primitives.BlockHeight, content []byte) primitives.RandomSeedSignature {
	km.w.noteSeedContent(km.idx, uint64(blockHeight), content)
	return km.w.keys.SignSeed(km.idx, uint64(blockHeight), content)
}

func (km *KeyManager) VerifyRandomSeed(blockHeight primitives.BlockHeight, content []byte, sender *protocol.SenderSignature) error {
	if sender == nil {
		return errors.New("nil sender")
	}
	id := sender.MemberId()
	if len(id) == 0 { // master key
		km.w.noteMasterVerify(km.idx, uint64(blockHeight), content)
		if bytes.Equal(km.w.keys.AggSig(uint64(blockHeight), content), sender.Signature()) {
			return nil
		}
		return errors.New("bad aggregated seed signature")
	}
	if !km.w.keys.SeedShareValid(id, uint64(blockHeight), content, sender.Signature()) {
		return errors.New("bad seed share")
	}
	return nil
}

func (km *KeyManager) AggregateRandomSeed(blockHeight primitives.BlockHeight, shares []*protocol.SenderSignature) primitives.RandomSeedSignature {
	for _, s := range shares {
		if c, ok := km.w.keys.shareContent[string(s.Signature())]; ok {
			return km.w.keys.AggSig(uint64(blockHeight), c)
		}
	}
	return []byte("no-valid-share")
}

// ---------------------------------------------------------------------------------------------
// Blocks

type Block struct {
	H      uint64
	Author int
	Nonce  uint64
	Poison bool // every correct validator rejects it
	hash   []byte
}

func (b *Block) Height() primitives.BlockHeight { return primitives.BlockHeight(b.H) }
// blockRefTimeMode: how the consumer's blocks of the current run are stamped (one run at a time per process). Reference
// times are whole seconds: consecutive blocks may share one, and nothing ties a committee to a reference time.
var blockRefTimeMode int

func (b *Block) ReferenceTime() primitives.TimestampSeconds {
	switch blockRefTimeMode {
	case 1:
		return 0 // the value the library assumes for the block before genesis, too
	case 2:
		return primitives.TimestampSeconds(1000 + b.H/2)
	}
	return primitives.TimestampSeconds(1000 + b.H)
}
func (b *Block) Hash() primitives.BlockHash {
	if b.hash == nil {
		s := sha256.Sum256([]byte(fmt.Sprintf("blk|%d|%d|%d|%v", b.H, b.Author, b.Nonce, b.Poison)))
		b.hash = s[:12]
	}
	return primitives.BlockHash(b.hash)
}
func (b *Block) String() string {
	if b == nil {
		return "nil"
	}
	p := ""
	if b.Poison {
		p = "!"
	}
	return fmt.Sprintf("B(h%d a%d #%d%s)", b.H, b.Author, b.Nonce, p)
}

func asBlock(b interfaces.Block) *Block {
	if b == nil {
		return nil
	}
	x, ok := b.(*Block)
	if !ok || x == nil {
		return nil
	}
	return x
}

func blockCommits(height uint64, b interfaces.Block, hash []byte) bool {
	x := asBlock(b)
	return x != nil && x.H == height && bytes.Equal(x.Hash(), hash)
}

// ---------------------------------------------------------------------------------------------
// Gates: a gated SPI call asks the harness (through the tape) what it should do.

type GateVerdict int

const (
	GatePass  GateVerdict = iota // return at once
	GateBlock                    // wait until released or ctx done
	GateFail                     // return an error (where the SPI allows one)
)

type Gate struct {
	node    *Node
	kind    string // "propose","validate","committee","commit","newround"
	height  uint64
	vmin, vmax uint64 // bounds of the view of the context position the library used for this call
	ignoresCtx bool
	ctx     context.Context
	release chan GateVerdict
	sawDone bool
	started uint64 // event seq
	late    bool   // released after ctx was cancelled, with a result
	role    string // yield gates: role of the parked goroutine
	midEvent bool  // a parked main loop that has an election trigger / sync in hand (not yet forwarded)
}

// enter is called from library goroutines inside SPI fakes.
func (n *Node) gateEnter(ctx context.Context, kind string, height uint64) GateVerdict {
	w := n.w
	// runaway guard: a library goroutine that calls the SPI in a tight loop never becomes quiescent. It is flagged and
	// parked for good so that the run can end (the harness would otherwise wait forever).
	if n.spiStep != w.step {
		n.spiStep, n.spiCalls = w.step, 0
	}
	n.spiCalls++
	if n.workerNotedEpoch != n.epoch && w.ys.enabled {
		n.workerNotedEpoch = n.epoch // the worker goroutine of this instance: noted once (a goroutine id is not free)
		w.noteGoroutine(n, "worker")
	}
	if n.spiCalls > 20000 {
		if ctx.Err() != nil {
			w.violate("C16", "busy-loop-after-cancel", "n%d calls %s in a tight loop with a cancelled context (more than 20000 calls without ever blocking)", n.idx, kind)
			w.violate("C15", "runtime/busy-loop-on-cancelled-context", "n%d calls %s in a tight loop with a cancelled context", n.idx, kind)
		}
		w.violate("C12", "busy-loop", "n%d calls %s in a tight loop (more than 20000 calls without ever blocking)", n.idx, kind)
		w.runaway = true
		<-w.never
	}
	w.ev("spi-start n%d %s h%d", n.idx, kind, height)
	if n.gatePolicy == nil {
		return GatePass
	}
	v := n.gatePolicy(kind, height)
	if v != GateBlock {
		return v
	}
	g := &Gate{node: n, kind: kind, height: height, ctx: ctx, release: make(chan GateVerdict, 1), started: w.seq}
	n.gatePosition(g)
	n.gates = append(n.gates, g)
	w.stats.Fault("spi-block")
	w.ev("spi-blocked n%d %s h%d view[%d,%d]", n.idx, kind, height, g.vmin, g.vmax)
	var res GateVerdict
	if (kind == "propose" || kind == "commit") && n.lateResultPm > 0 && w.ch.Chance("late-result", n.lateResultPm) {
		// a consumer whose proposal arrives after its context was cancelled (deliberately ignores ctx)
		g.ignoresCtx = true
		w.stats.Fault("spi-late-result")
		res = <-g.release
		if ctx.Err() != nil {
			g.late = true
			w.probe("late-result-after-cancel")
		}
		n.removeGate(g)
		return res
	}
	select {
	case res = <-g.release:
		if ctx.Err() != nil {
			g.late = true
		}
	case <-ctx.Done():
		g.sawDone = true
		res = GateFail
		w.probe("spi-released-by-ctx")
		w.onGateCancelled(n, g)
	}
	n.removeGate(g)
	return res
}

func (n *Node) removeGate(g *Gate) {
	for i, x := range n.gates {
		if x == g {
			n.gates = append(n.gates[:i], n.gates[i+1:]...)
			return
		}
	}
}

// ---------------------------------------------------------------------------------------------
// BlockUtils

type BlockUtils struct{ n *Node }

func (bu *BlockUtils) RequestNewBlockProposal(ctx context.Context, blockHeight primitives.BlockHeight, memberId primitives.MemberId, prevBlock interfaces.Block) (interfaces.Block, primitives.BlockHash) {
	n := bu.n
	w := n.w
	ctxDeadAtStart := ctx.Err() != nil
	n.gateEnter(ctx, "propose", uint64(blockHeight))
	w.nonce++
	b := &Block{H: uint64(blockHeight), Author: n.idx, Nonce: w.nonce}
	if n.proposePoison {
		b.Poison = true
	}
	w.producedBy[string(b.Hash())] = n.idx
	w.blocks[string(b.Hash())] = b
	n.obs.proposals = append(n.obs.proposals, proposalRec{seq: w.seq, height: uint64(blockHeight), hash: b.Hash(), ctxDeadAtStart: ctxDeadAtStart, ctxDeadAtEnd: ctx.Err() != nil, epoch: n.epoch, step: w.step})
	w.ev("spi-propose n%d h%d -> %s ctxdead=%v", n.idx, blockHeight, b, ctx.Err() != nil)
	return b, b.Hash()
}

func (bu *BlockUtils) ValidateBlockProposal(ctx context.Context, blockHeight primitives.BlockHeight, memberId primitives.MemberId, block interfaces.Block, blockHash primitives.BlockHash, prevBlock interfaces.Block) error {
	n := bu.n
	w := n.w
	var err error
	b := asBlock(block)
	switch {
	case block == nil && n.w.cfg.LenientNilBlock:
		// a consumer that does not look at a missing block (as the repository's own mock): the library must cope
		n.w.ev("spi-validate n%d h%d nil block accepted by a lenient consumer", n.idx, blockHeight)
		n.w.probe("lenient-nil-block-accepted")
		return nil
	case b == nil:
		err = errors.New("nil block")
	case b.H != uint64(blockHeight):
		err = errors.New("wrong height")
	case !bytes.Equal(b.Hash(), blockHash):
		err = errors.New("hash mismatch")
	case b.Poison:
		err = errors.New("poison block")
	}
	// a consumer may be slow whatever its verdict will be: a block it is going to reject goes through the gate too
	// (the verdict of a bad block stands whatever the gate says)
	if v := n.gateEnter(ctx, "validate", uint64(blockHeight)); v == GateFail && err == nil {
		err = errors.New("consumer rejected")
	}
	n.obs.validations = append(n.obs.validations, validationRec{seq: w.seq, height: uint64(blockHeight), hash: append([]byte(nil), blockHash...), block: b, ok: err == nil, epoch: n.epoch, step: w.step})
	w.ev("spi-validate n%d h%d %s ok=%v", n.idx, blockHeight, b, err == nil)
	return err
}

func (bu *BlockUtils) ValidateBlockCommitment(blockHeight primitives.BlockHeight, block interfaces.Block, blockHash primitives.BlockHash) bool {
	return blockCommits(uint64(blockHeight), block, blockHash)
}

// ---------------------------------------------------------------------------------------------
// Membership

type Membership struct{ n *Node }

func (m *Membership) MyMemberId() primitives.MemberId { return m.n.id }

func (m *Membership) RequestOrderedCommittee(ctx context.Context, blockHeight primitives.BlockHeight, randomSeed uint64, prevBlockReferenceTime primitives.TimestampSeconds) ([]interfaces.CommitteeMember, error) {
	n := m.n
	n.obs.committeeCalls++
	if n.gateEnter(ctx, "committee", uint64(blockHeight)) == GateFail && !n.retryWouldCollide() {
		n.w.stats.Fault("spi-error-committee")
		// the library retries after a fixed real-time pause: tell the scheduler that this node has a timed wake-up
		n.w.syncClock()
		n.wakeAt = n.w.now + 200*time.Millisecond + time.Microsecond // the library's fixed retry pause
		n.w.seq++
		n.wakeSeq = n.w.seq
		return nil, errors.New("committee lookup failed")
	}
	n.wakeAt = 0
	n.obs.seedAt[uint64(blockHeight)] = randomSeed
	return n.w.Committee(uint64(blockHeight)), nil
}

func (m *Membership) RequestCommitteeForBlockProof(ctx context.Context, blockHeight primitives.BlockHeight, prevBlockReferenceTime primitives.TimestampSeconds) ([]interfaces.CommitteeMember, error) {
	m.n.w.callCancel.lookup(m.n.idx)
	return m.n.w.Committee(uint64(blockHeight)), nil
}

// ---------------------------------------------------------------------------------------------
// Communication

type Communication struct{ n *Node }

func (c *Communication) SendConsensusMessage(ctx context.Context, recipients []primitives.MemberId, message *interfaces.ConsensusRawMessage) error {
	return c.n.w.onSend(c.n, recipients, message)
}

// ---------------------------------------------------------------------------------------------
// Election trigger owned by the simulator

type registration struct {
	h, v   uint64
	cb     func(primitives.BlockHeight, primitives.View, interfaces.OnElectionCallback)
	at     time.Duration
	seq    uint64
	fired  bool
	stale  bool // superseded or stopped
	staleN int
}

const simTimeoutCap = time.Duration(1) << 58

type SimTrigger struct {
	n    *Node
	ch   chan *interfaces.ElectionTrigger
	cur  *registration
	past []*registration
}

func (t *SimTrigger) RegisterOnElection(blockHeight primitives.BlockHeight, view primitives.View, cb func(primitives.BlockHeight, primitives.View, interfaces.OnElectionCallback)) {
	w := t.n.w
	if t.cur != nil && !t.cur.stale && t.cur.cb != nil && t.cur.h == uint64(blockHeight) && t.cur.v == uint64(view) {
		return
	}
	t.disarm()
	w.seq++
	r := &registration{h: uint64(blockHeight), v: uint64(view), cb: cb, seq: w.seq}
	w.syncClock()
	r.at = w.now + t.timeout(uint64(view))
	t.cur = r
	t.n.obs.registrations = append(t.n.obs.registrations, hv{uint64(blockHeight), uint64(view)})
	w.ev("register n%d h%d v%d", t.n.idx, blockHeight, view)
	w.onRegister(t.n, uint64(blockHeight), uint64(view))
}

func (t *SimTrigger) disarm() {
	if t.cur != nil {
		t.cur.stale = true
		t.past = append(t.past, t.cur)
		if len(t.past) > 4 {
			t.past = t.past[len(t.past)-4:]
		}
		t.cur = nil
	}
}

func (t *SimTrigger) timeout(view uint64) time.Duration {
	// base*2^view, saturating at about 9 years of simulated time
	const sat = simTimeoutCap
	base := t.n.timerBase
	if view >= 40 {
		return sat
	}
	d := base << view
	if d <= 0 || d>>view != base || d > sat {
		return sat
	}
	return d
}

func (t *SimTrigger) ElectionChannel() chan *interfaces.ElectionTrigger { return t.ch }
func (t *SimTrigger) CalcTimeout(view primitives.View) time.Duration  { return t.timeout(uint64(view)) }
func (t *SimTrigger) Stop() {
	if t.cur != nil {
		t.n.w.ev("timer-stop n%d", t.n.idx)
	}
	t.disarm()
}

func (r *registration) trigger() *interfaces.ElectionTrigger {
	h, v, cb := r.h, r.v, r.cb
	return &interfaces.ElectionTrigger{
		MoveToNextLeader: func() {
			if cb != nil {
				cb(primitives.BlockHeight(h), primitives.View(v), nil)
			}
		},
		Hv: state.NewHeightView(primitives.BlockHeight(h), primitives.View(v)),
	}
}

// ---------------------------------------------------------------------------------------------
// Storage decorator: real InMemoryStorage underneath, canonical slice order on top (the real one returns
// map-ordered slices that end up inside signed messages), then a run-chosen permutation; records stores.

type StorageDeco struct {
	n     *Node
	inner interfaces.Storage
}

func NewStorageDeco(n *Node) *StorageDeco {
	return &StorageDeco{n: n, inner: storage.NewInMemoryStorage()}
}

func (s *StorageDeco) order(k int) []int {
	// canonical order is the sorted order established by the caller; apply the run's order mode
	p := make([]int, k)
	for i := range p {
		p[i] = i
	}
	switch s.n.w.cfg.StorageOrder {
	case 1: // reversed
		for i, j := 0, k-1; i < j; i, j = i+1, j-1 {
			p[i], p[j] = p[j], p[i]
		}
	case 2: // rotated by a per-call tape value
		if k > 1 {
			r := s.n.w.ch.Pick("st-rot", k)
			q := make([]int, k)
			for i := range p {
				q[i] = p[(i+r)%k]
			}
			p = q
		}
	case 3: // full permutation from the tape
		if k > 1 {
			p = s.n.w.ch.Perm("st-perm", k)
		}
	}
	return p
}

func (s *StorageDeco) StorePreprepare(ppm *interfaces.PreprepareMessage) bool {
	r := s.inner.StorePreprepare(ppm)
	s.n.w.onStore(s.n, "PP", ppm, r)
	return r
}
func (s *StorageDeco) GetPreprepareMessage(h primitives.BlockHeight, v primitives.View) (*interfaces.PreprepareMessage, bool) {
	return s.inner.GetPreprepareMessage(h, v)
}
func (s *StorageDeco) GetPreprepareBlock(h primitives.BlockHeight, v primitives.View) (interfaces.Block, bool) {
	// passed through as it is (the real implementation dereferences nil when the height is known and the view is not:
	// the library as it stands never calls it; a change that starts to must meet the real behaviour)
	return s.inner.GetPreprepareBlock(h, v)
}
func (s *StorageDeco) GetLatestPreprepare(h primitives.BlockHeight) (*interfaces.PreprepareMessage, bool) {
	return s.inner.GetLatestPreprepare(h)
}
func (s *StorageDeco) GetPreprepareFromView(h primitives.BlockHeight, v primitives.View) (*interfaces.PreprepareMessage, bool) {
	return s.inner.GetPreprepareFromView(h, v)
}
func (s *StorageDeco) StorePrepare(pp *interfaces.PrepareMessage) bool {
	r := s.inner.StorePrepare(pp)
	s.n.w.onStore(s.n, "P", pp, r)
	return r
}
func (s *StorageDeco) GetPrepareMessages(h primitives.BlockHeight, v primitives.View, hash primitives.BlockHash) ([]*interfaces.PrepareMessage, bool) {
	ms, ok := s.inner.GetPrepareMessages(h, v, hash)
	sort.Slice(ms, func(i, j int) bool {
		return bytes.Compare(ms[i].SenderMemberId(), ms[j].SenderMemberId()) < 0
	})
	p := s.order(len(ms))
	out := make([]*interfaces.PrepareMessage, len(ms))
	for i, j := range p {
		out[i] = ms[j]
	}
	if ms == nil {
		return nil, ok
	}
	return out, ok
}
func (s *StorageDeco) GetPrepareSendersIds(h primitives.BlockHeight, v primitives.View, hash primitives.BlockHash) []primitives.MemberId {
	ids := s.inner.GetPrepareSendersIds(h, v, hash)
	sort.Slice(ids, func(i, j int) bool { return bytes.Compare(ids[i], ids[j]) < 0 })
	return ids
}
func (s *StorageDeco) GetPrepareMessagesFromView(h primitives.BlockHeight, v primitives.View) ([]*interfaces.PrepareMessage, bool) {
	ms, ok := s.inner.GetPrepareMessagesFromView(h, v)
	sort.Slice(ms, func(i, j int) bool {
		if c := bytes.Compare(ms[i].SenderMemberId(), ms[j].SenderMemberId()); c != 0 {
			return c < 0
		}
		return bytes.Compare(ms[i].Raw(), ms[j].Raw()) < 0
	})
	return ms, ok
}
func (s *StorageDeco) StoreCommit(cm *interfaces.CommitMessage) bool {
	r := s.inner.StoreCommit(cm)
	s.n.w.onStore(s.n, "C", cm, r)
	return r
}
func (s *StorageDeco) GetCommitMessages(h primitives.BlockHeight, v primitives.View, hash primitives.BlockHash) ([]*interfaces.CommitMessage, bool) {
	ms, ok := s.inner.GetCommitMessages(h, v, hash)
	sort.Slice(ms, func(i, j int) bool {
		return bytes.Compare(ms[i].SenderMemberId(), ms[j].SenderMemberId()) < 0
	})
	if ms == nil {
		return nil, ok
	}
	p := s.order(len(ms))
	out := make([]*interfaces.CommitMessage, len(ms))
	for i, j := range p {
		out[i] = ms[j]
	}
	return out, ok
}
func (s *StorageDeco) GetCommitSendersIds(h primitives.BlockHeight, v primitives.View, hash primitives.BlockHash) []primitives.MemberId {
	ids := s.inner.GetCommitSendersIds(h, v, hash)
	sort.Slice(ids, func(i, j int) bool { return bytes.Compare(ids[i], ids[j]) < 0 })
	return ids
}
func (s *StorageDeco) GetCommitMessagesFromView(h primitives.BlockHeight, v primitives.View) ([]*interfaces.CommitMessage, bool) {
	ms, ok := s.inner.GetCommitMessagesFromView(h, v)
	sort.Slice(ms, func(i, j int) bool {
		if c := bytes.Compare(ms[i].SenderMemberId(), ms[j].SenderMemberId()); c != 0 {
			return c < 0
		}
		return bytes.Compare(ms[i].Raw(), ms[j].Raw()) < 0
	})
	return ms, ok
}
func (s *StorageDeco) StoreViewChange(vcm *interfaces.ViewChangeMessage) bool {
	r := s.inner.StoreViewChange(vcm)
	s.n.w.onStore(s.n, "VC", vcm, r)
	return r
}
func (s *StorageDeco) GetViewChangeMessages(h primitives.BlockHeight, v primitives.View) ([]*interfaces.ViewChangeMessage, bool) {
	ms, ok := s.inner.GetViewChangeMessages(h, v)
	sort.Slice(ms, func(i, j int) bool {
		return bytes.Compare(ms[i].SenderMemberId(), ms[j].SenderMemberId()) < 0
	})
	if ms == nil {
		return nil, ok
	}
	p := s.order(len(ms))
	out := make([]*interfaces.ViewChangeMessage, len(ms))
	for i, j := range p {
		out[i] = ms[j]
	}
	return out, ok
}
func (s *StorageDeco) GetAllMessagesFromView(h primitives.BlockHeight, v primitives.View) []interface{} {
	return s.inner.GetAllMessagesFromView(h, v) // map-ordered, but only ever rendered into a log line
}
func (s *StorageDeco) ClearBlockHeightLogs(h primitives.BlockHeight) {
	s.inner.ClearBlockHeightLogs(h)
	s.n.w.ev("storage-clear n%d h%d", s.n.idx, h)
}

// retryWouldCollide: the library pauses a fixed 200 ms after a failed committee lookup. Two nodes whose pauses end at
// the same fake instant would be woken together, in an order the harness does not control; such a failure is not
// injected (the lookup succeeds instead).
func (n *Node) retryWouldCollide() bool {
	n.w.syncClock()
	at := n.w.now + 200*time.Millisecond
	for _, o := range n.w.nodes {
		if o == n || o.wakeAt == 0 {
			continue
		}
		d := o.wakeAt - at
		if d < 0 {
			d = -d
		}
		if d < time.Millisecond {
			n.w.probe("committee-failure-not-injected-(collision)")
			return true
		}
	}
	for _, o := range n.w.nodes {
		if o != n && o.realTrig != nil && o.realTrig.armed {
			d := o.realTrig.expiry - at
			if d < 0 {
				d = -d
			}
			if d < time.Millisecond {
				return true
			}
		}
	}
	return false
}

// ---------------------------------------------------------------------------------------------
// Logger fake for the RT focus node. Config.Logger is a consumer-side seam: a consumer's logger may be slow. The
// harness can arm it so that the k-th next log line written by the worker goroutine blocks until released (a yield
// point in the middle of whatever the worker is doing: after it took an item from a channel and before it acted on
// it, between two storage calls, ...). Lines of the main loop and of API-caller goroutines are never held (the
// properties assume those do not block).

type SimLogger struct{ n *Node }

func (l *SimLogger) Debug(format string, args ...interface{}) { l.n.logLine(format) }
func (l *SimLogger) Info(format string, args ...interface{})  { l.n.logLine(format) }
func (l *SimLogger) Error(format string, args ...interface{}) { l.n.logLine(format) }
func (l *SimLogger) ConsensusTrace(format string, fields ...*log.Field) { l.n.logLine("TRACE " + format) }

func (n *Node) logLine(line string) {
	if n.logYieldIn <= 0 || n.w.recovering || !n.alive {
		return
	}
	// never hold the main loop, API-caller goroutines, or ValidateBlockConsensus (called by consumer threads - here the
	// harness goroutine itself and other nodes' commit callbacks)
	if containsStr(line, "MAINLOOP") || containsStr(line, "UpdateState() ") || containsStr(line, "HandleConsensusRawMessage()") || containsStr(line, "MainLoop.Run()") || containsStr(line, "ValidateBlockConsensus") {
		return
	}
	if n.logYieldTrace {
		if !containsStr(line, "TRACE ") {
			return
		}
		n.logYieldTrace = false
		n.logYieldIn = 1
		n.w.probe("log-yield-at-trace-record")
	}
	n.logYieldIn--
	if n.logYieldIn > 0 {
		return
	}
	w := n.w
	g := &Gate{node: n, kind: "log", height: n.height(), ctx: n.ctx, release: make(chan GateVerdict, 1), started: w.seq, ignoresCtx: true}
	n.gates = append(n.gates, g)
	w.stats.Fault("worker-held-at-log-line")
	w.ev("log-yield n%d at %q", n.idx, logKey(line))
	<-g.release // a logger knows no context: released by the harness (gate-release action, or shutdown drain)
	n.removeGate(g)
}

// logKey: the stable part of a log line (timestamps and ids stripped) for traces.
func logKey(line string) string {
	for i := 0; i+3 < len(line); i++ {
		if line[i] == 'I' && line[i+1] == 'D' && line[i+2] == '=' {
			j := i + 3
			for j < len(line) && line[j] != ' ' {
				j++
			}
			if j+1 < len(line) {
				line = line[j+1:]
			}
			break
		}
	}
	if len(line) > 60 {
		line = line[:60]
	}
	return line
}

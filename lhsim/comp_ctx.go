package lhsim

import (
	"context"
	"fmt"

	"github.com/orbs-network/lean-helix-go/spec/types/go/primitives"
	"github.com/orbs-network/lean-helix-go/state"
)

// COMP shape for C15: the real state.ViewContexts against a model (watermark, shutdown flag).

type cOp struct {
	kind int // 0 For, 1 CancelOlderThan, 2 Shutdown
	hv   hv
}

func (o cOp) String() string {
	switch o.kind {
	case 0:
		return fmt.Sprintf("For(h%d,v%d)", o.hv.h, o.hv.v)
	case 1:
		return fmt.Sprintf("CancelOlderThan(h%d,v%d)", o.hv.h, o.hv.v)
	}
	return "Shutdown()"
}

type handedCtx struct {
	hv  hv
	ctx context.Context
	at  int
}

type ctxRig struct {
	vc        *state.ViewContexts
	handed    []handedCtx
	watermark *hv
	shutdown  bool
	n         int
}

func newCtxRig() *ctxRig { return &ctxRig{vc: state.NewViewContexts()} }

func shv(x hv) *state.HeightView {
	return state.NewHeightView(primitives.BlockHeight(x.h), primitives.View(x.v))
}

// apply performs one operation on the real registry and the model and returns a violation text or "".
func (r *ctxRig) apply(o cOp) (string, string) {
	r.n++
	switch o.kind {
	case 0:
		ctx, err := r.vc.For(shv(o.hv))
		stale := r.watermark != nil && o.hv.less(*r.watermark)
		wantErr := r.shutdown || stale
		if (err != nil) != wantErr {
			return "for-error-mismatch", fmt.Sprintf("%s returned err=%v but the model says error=%v (watermark=%v shutdown=%v)", o, err, wantErr, r.watermark, r.shutdown)
		}
		if err == nil {
			if ctx == nil || ctx.Err() != nil {
				return "handed-out-dead-context", fmt.Sprintf("%s returned a context that is already cancelled", o)
			}
			for i := len(r.handed) - 1; i >= 0; i-- {
				p := r.handed[i]
				if p.hv == o.hv {
					if p.ctx != ctx && p.ctx.Err() == nil {
						return "two-live-contexts", fmt.Sprintf("%s returned a second live context for the same position", o)
					}
					break
				}
			}
			r.handed = append(r.handed, handedCtx{o.hv, ctx, r.n})
		}
	case 1:
		r.vc.CancelOlderThan(shv(o.hv))
		if r.watermark == nil || r.watermark.less(o.hv) {
			x := o.hv
			r.watermark = &x
		}
	case 2:
		r.vc.Shutdown()
		r.shutdown = true
	}
	// cancelled <=> strictly older than some later watermark, or shutdown
	for _, p := range r.handed {
		want := r.shutdown || (r.watermark != nil && p.hv.less(*r.watermark))
		got := p.ctx.Err() != nil
		if got != want {
			cls := "context-not-cancelled"
			if got {
				cls = "context-cancelled-too-early"
			}
			return cls, fmt.Sprintf("after %s: context of (h%d,v%d) cancelled=%v but the model says %v (watermark=%v shutdown=%v)", o, p.hv.h, p.hv.v, got, want, r.watermark, r.shutdown)
		}
	}
	return "", ""
}

func genCtxConfig(ch *Chooser, prop, tier string, disabled map[string]bool) *RunConfig {
	cfg := &RunConfig{Prop: prop, Shape: "COMP-contexts", Tier: tier, Disabled: disabled}
	cfg.MaxSteps = 5 + ch.Pick("len", 80)
	return cfg
}

// model applies the bookkeeping of one operation whose real call has completed (result: ctx / err of For).
func (r *ctxRig) check() (string, string) {
	for _, p := range r.handed {
		want := r.shutdown || (r.watermark != nil && p.hv.less(*r.watermark))
		got := p.ctx.Err() != nil
		if got != want {
			cls := "context-not-cancelled"
			if got {
				cls = "context-cancelled-too-early"
			}
			return cls, fmt.Sprintf("context of (h%d,v%d) cancelled=%v but the model says %v (watermark=%v shutdown=%v)", p.hv.h, p.hv.v, got, want, r.watermark, r.shutdown)
		}
	}
	return "", ""
}

// overlapped: the registry is shared by the main loop (which cancels) and the worker (which asks for contexts). One
// operation runs on a second goroutine and is preempted at one of its scheduling points (H4); meanwhile a few
// operations run start to finish; then the first one finishes. The registry must behave as if the preempted operation
// had happened at one instant (here: when it finishes - it is parked before it has done anything, or the code under
// test has split its effect).
func (r *ctxRig) overlapped(w *World, g cOp, between []cOp) (string, string) {
	type res struct {
		ctx context.Context
		err error
	}
	done := make(chan res, 1)
	w.armYield(nil, "", 1+w.ch.Pick("ctx-yield-in", 4), "")
	go func() {
		var x res
		if g.kind == 0 {
			x.ctx, x.err = r.vc.For(shv(g.hv))
		} else {
			r.vc.CancelOlderThan(shv(g.hv))
		}
		done <- x
	}()
	simWait()
	w.ys.arm = nil
	parked := len(w.ys.loose) > 0
	applyG := func(x res) (string, string) {
		r.n++
		if g.kind == 1 {
			if r.watermark == nil || r.watermark.less(g.hv) {
				y := g.hv
				r.watermark = &y
			}
		} else {
			stale := r.watermark != nil && g.hv.less(*r.watermark)
			if (x.err != nil) != (r.shutdown || stale) {
				return "for-error-mismatch", fmt.Sprintf("overlapped %s returned err=%v but the model says error=%v", g, x.err, r.shutdown || stale)
			}
			if x.err == nil {
				for i := len(r.handed) - 1; i >= 0; i-- {
					if p := r.handed[i]; p.hv == g.hv {
						if p.ctx != x.ctx && p.ctx.Err() == nil {
							return "two-live-contexts", fmt.Sprintf("overlapped %s returned a second live context for the same position", g)
						}
						break
					}
				}
				r.handed = append(r.handed, handedCtx{g.hv, x.ctx, r.n})
			}
		}
		return r.check()
	}
	if !parked {
		if cls, msg := applyG(<-done); cls != "" {
			return cls, msg
		}
	} else {
		w.probe("registry-operation-preempted")
		w.stats.Fault("preempted-at-sync-point")
	}
	for _, o := range between {
		w.ev("  (meanwhile) %s", o)
		if cls, msg := r.apply(o); cls != "" {
			return cls, "while " + g.String() + " was preempted: " + msg
		}
	}
	if parked {
		w.releaseLooseYields()
		simWait()
		if cls, msg := applyG(<-done); cls != "" {
			return cls, "after the preempted " + g.String() + " finished: " + msg
		}
	}
	return "", ""
}

func RunCtxComp(w *World) {
	r := newCtxRig()
	w.enableYields()
	spanH := 1 + w.ch.Pick("span-h", 4)
	spanV := 1 + w.ch.Pick("span-v", 4)
	maxView := w.ch.Pick("maxview-mode", 4) == 3 // umbrella contexts at view 2^64-1, as the library uses
	var base uint64
	for w.step = 0; w.step < w.cfg.MaxSteps && w.viol == nil; w.step++ {
		var o cOp
		k := w.ch.Pick("op", 10)
		switch {
		case k < 6:
			o.kind = 0
		case k < 9:
			o.kind = 1
		default:
			if w.ch.Pick("shutdown?", 8) == 7 {
				o.kind = 2
				w.stats.Fault("shutdown")
			}
		}
		o.hv = hv{base + uint64(w.ch.Pick("h", spanH+1)), uint64(w.ch.Pick("v", spanV+1))}
		if maxView && w.ch.Pick("umbrella", 5) == 4 {
			o.hv.v = ^uint64(0)
		}
		if o.kind == 1 {
			w.stats.Fault("cancel-older")
			if w.ch.Pick("advance-base", 4) == 3 {
				base++
			}
		}
		w.action([]string{"for", "cancel", "shutdown"}[o.kind])
		w.ev("%s", o)
		if o.kind != 2 && w.ch.Pick("overlap", 4) == 3 {
			var between []cOp
			for i := 0; i <= w.ch.Pick("overlap-n", 3); i++ {
				b := cOp{kind: w.ch.Pick("overlap-kind", 2), hv: hv{base + uint64(w.ch.Pick("h", spanH+1)), uint64(w.ch.Pick("v", spanV+1))}}
				between = append(between, b)
			}
			w.action("overlapped")
			if cls, msg := r.overlapped(w, o, between); cls != "" {
				w.violate("C15", "registry/overlapped/"+cls, "%s", msg)
			}
			continue
		}
		if cls, msg := r.apply(o); cls != "" {
			w.violate("C15", "registry/"+cls, "%s", msg)
		}
	}
	w.probe("nontrivial")
}

func genCtxSweepConfig(ch *Chooser, prop, tier string, disabled map[string]bool) *RunConfig {
	cfg := &RunConfig{Prop: prop, Shape: "COMP-contexts-sweep", Tier: tier, Disabled: disabled}
	cfg.MaxSteps = 5
	if tier == "thorough" {
		cfg.MaxSteps = 6
	}
	cfg.Window = ch.Pick("sweep-part", 16)
	return cfg
}

// RunCtxSweep: every sequence up to a length over a 2x3 (h,v) grid (exhaustive for that sub-space only).
func RunCtxSweep(w *World) {
	var alpha []cOp
	for h := uint64(1); h <= 2; h++ {
		for v := uint64(0); v <= 2; v++ {
			alpha = append(alpha, cOp{0, hv{h, v}}, cOp{1, hv{h, v}})
		}
	}
	alpha = append(alpha, cOp{kind: 2})
	K := len(alpha)
	L := w.cfg.MaxSteps
	total := 1
	for i := 0; i < L; i++ {
		total *= K
	}
	seqs := 0
	for n := w.cfg.Window; n < total && w.viol == nil; n += 16 {
		r := newCtxRig()
		x := n
		for i := 0; i < L; i++ {
			o := alpha[x%K]
			x /= K
			if cls, msg := r.apply(o); cls != "" {
				w.violate("C15", "registry/"+cls, "sweep sequence %d: %s", n, msg)
				break
			}
		}
		r.vc.Shutdown() // release the contexts
		seqs++
	}
	w.stats.Probes["sweep-sequences"] += seqs
	w.stats.Fault("cancel-older")
	w.probe("nontrivial")
	w.step = seqs
}

package lhsim

import (
	"bytes"
	"fmt"

	"github.com/orbs-network/lean-helix-go/spec/types/go/protocol"
)

// Reference predicates, written from the property statements over the generated decoders and the
// signature oracle. They never call the validators under test; thresholds are exact integers from
// W, f = floor((W-1)/3), Q = W - f.

func (w *World) sigOK(s Sig, height uint64, content []byte) bool {
	return w.keys.MsgSigValid(s.Id, height, content, s.Sig)
}

func (w *World) isLeader(id []byte, h, v uint64) bool {
	return bytes.Equal(w.leader(h, v), id)
}

// refProof: a prepared proof for height h usable in a vote for targetView.
func (w *World) refProof(p Proof, h, targetView uint64) (bool, string) {
	if !p.Present {
		return false, "absent"
	}
	if p.PP.Type != protocol.LEAN_HELIX_PREPREPARE || p.P.Type != protocol.LEAN_HELIX_PREPARE {
		return false, "block-ref message types are not PREPREPARE/PREPARE"
	}
	if p.PP.Instance != w.instance || p.P.Instance != w.instance {
		return false, "instance"
	}
	if p.PP.H != h || p.P.H != h {
		return false, "height"
	}
	if p.PP.V != p.P.V {
		return false, "views differ"
	}
	if p.PP.V >= targetView {
		return false, "proof view not earlier than target view"
	}
	if !bytes.Equal(p.PP.Hash, p.P.Hash) {
		return false, "hashes differ"
	}
	if !w.isLeader(p.PPSig.Id, h, p.PP.V) {
		return false, "preprepare signer is not the leader of the proof view"
	}
	if !w.sigOK(p.PPSig, h, p.PP.Raw) {
		return false, "preprepare signature invalid"
	}
	ids := map[string]bool{string(p.PPSig.Id): true}
	for _, s := range p.PSigs {
		if ids[string(s.Id)] {
			return false, "duplicate signer (or leader as preparer)"
		}
		if !w.inCommittee(h, s.Id) {
			return false, "preparer outside committee"
		}
		if !w.sigOK(s, h, p.P.Raw) {
			return false, "prepare signature invalid"
		}
		ids[string(s.Id)] = true
	}
	_, _, q := thresholds(w.Committee(h))
	if w.weightOf(h, ids) < q {
		return false, "below quorum weight"
	}
	return true, ""
}

// refVote: a VIEW_CHANGE content that counts as a vote for exactly (instance, h, v).
func (w *World) refVote(vt *Vote, h, v uint64) (bool, string) {
	if vt.Type != protocol.LEAN_HELIX_VIEW_CHANGE {
		return false, "header type is not VIEW_CHANGE"
	}
	if vt.Instance != w.instance || vt.H != h || vt.V != v {
		return false, "not for this (instance, height, view)"
	}
	if !w.inCommittee(h, vt.Sender.Id) {
		return false, "voter outside committee"
	}
	if !w.sigOK(vt.Sender, h, vt.HeaderRaw) {
		return false, "vote signature invalid"
	}
	if vt.Proof.Present {
		if ok, why := w.refProof(vt.Proof, h, v); !ok {
			return false, "prepared proof invalid: " + why
		}
	}
	return true, ""
}

// refNewView: the C07 certificate predicate for a NEW_VIEW message m and exactly (h, v).
// fresh reports whether the certificate carries no proof (the proposal is then a fresh block that the
// node's own consumer must validate).
func (w *World) refNewView(m *Msg, h, v uint64) (ok bool, fresh bool, why string) {
	if m == nil || m.Kind != KNV {
		return false, false, "not a NEW_VIEW"
	}
	if m.NVType != protocol.LEAN_HELIX_NEW_VIEW {
		return false, false, "header type is not NEW_VIEW"
	}
	if m.NVInstance != w.instance || m.NVH != h || m.NVV != v {
		return false, false, "not for this (instance, height, view)"
	}
	if !w.isLeader(m.Sender.Id, h, v) || !w.sigOK(m.Sender, h, m.NVHeader) {
		return false, false, "not signed by the leader of the view"
	}
	ids := map[string]bool{}
	var best *Vote
	for _, vt := range m.Votes {
		if ok, why := w.refVote(vt, h, v); !ok {
			return false, false, fmt.Sprintf("vote of %s: %s", string(vt.Sender.Id), why)
		}
		if ids[string(vt.Sender.Id)] {
			return false, false, "duplicate voter"
		}
		ids[string(vt.Sender.Id)] = true
		if vt.Proof.Present && (best == nil || vt.Proof.PP.V > best.Proof.PP.V) {
			best = vt
		}
	}
	_, _, q := thresholds(w.Committee(h))
	if w.weightOf(h, ids) < q {
		return false, false, "votes below quorum weight"
	}
	// embedded proposal
	if m.Ref.Type != protocol.LEAN_HELIX_PREPREPARE || m.Ref.Instance != w.instance || m.Ref.H != h || m.Ref.V != v {
		return false, false, "embedded proposal is not a PREPREPARE for this (instance, height, view)"
	}
	if !w.isLeader(m.PPSender.Id, h, v) || !w.sigOK(m.PPSender, h, m.Ref.Raw) {
		return false, false, "embedded proposal not signed by the leader"
	}
	if m.Block == nil || !bytes.Equal(m.Block.Hash(), m.Ref.Hash) || m.Block.H != h {
		return false, false, "attached block does not match the proposed hash"
	}
	if best != nil {
		if !bytes.Equal(best.Proof.PP.Hash, m.Ref.Hash) {
			return false, false, "proposal is not the block of the highest prepared proof"
		}
		return true, false, ""
	}
	return true, true, ""
}

// refBlockProof: the C02/C03 certificate predicate. strict: weight >= Q; soft: weight > f.
func (w *World) refBlockProof(blk *Block, proofBytes []byte, soft bool) (ok bool, why string) {
	defer func() {
		if r := recover(); r != nil {
			ok, why = false, fmt.Sprintf("undecodable proof: %v", r)
		}
	}()
	if blk == nil {
		return false, "nil block"
	}
	if len(proofBytes) == 0 {
		return false, "empty proof"
	}
	p := protocol.BlockProofReader(proofBytes)
	ref := decRef(p.BlockRef())
	h := blk.H
	if ref.Type != protocol.LEAN_HELIX_COMMIT {
		return false, "block-ref type is not COMMIT"
	}
	if ref.Instance != w.instance {
		return false, "instance"
	}
	if ref.H != h {
		return false, "height"
	}
	if !bytes.Equal(ref.Hash, blk.Hash()) {
		return false, "hash does not commit to the block"
	}
	ids := map[string]bool{}
	it := p.NodesIterator()
	for n := 0; it.HasNext() && n < 4096; n++ {
		s := decSig(it.NextNodes())
		if ids[string(s.Id)] {
			return false, "duplicate signer"
		}
		if !w.inCommittee(h, s.Id) {
			return false, "signer outside committee"
		}
		if !w.sigOK(s, h, ref.Raw) {
			return false, "signature invalid"
		}
		ids[string(s.Id)] = true
	}
	_, f, q := thresholds(w.Committee(h))
	wt := w.weightOf(h, ids)
	if soft {
		if wt <= f {
			return false, fmt.Sprintf("weight %d does not exceed f=%d", wt, f)
		}
	} else if wt < q {
		return false, fmt.Sprintf("weight %d below quorum %d", wt, q)
	}
	return true, ""
}

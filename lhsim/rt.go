package lhsim

import (
	"context"
	"fmt"
	"time"

	"github.com/orbs-network/lean-helix-go/services/interfaces"
	"github.com/orbs-network/lean-helix-go/verifhook"
)

// RT shape: the NET world with one focus node whose worker select is under harness control (H1), whose SPI
// calls are gated (block / fail / late result), which may run the library's real timer, and which receives
// API stress: UpdateState bursts (older / equal / newer), malformed input, cancellation at an arbitrary step.

// cancelPoints: how many cancellation points are enumerated per generated base run (C16)
func cancelPoints(tier string) int {
	if tier == "thorough" {
		return 200
	}
	return 40
}

func genRTConfig(ch *Chooser, prop, tier string, disabled map[string]bool) *RunConfig {
	cancelAt := 0
	if prop == "C16" {
		// fault enumeration: the run index was split by the driver into (base run, cancellation point); all runs of
		// one base draw the same configuration and the same schedule, and differ only in where cancellation strikes
		base := ch.Pick("c16-base", 1<<30)
		k := ch.Pick("c16-cancel-point", cancelPoints(tier))
		ch.Reseed(uint64(base))
		if tier == "thorough" {
			cancelAt = 1 + k
		} else {
			cancelAt = 1 + 5*k
		}
	}
	cfg := genNetConfig(ch, prop, tier, disabled)
	cfg.Shape = "RT"
	// the focus node is a correct member
	byz := map[int]bool{}
	for _, b := range cfg.Byz {
		byz[b] = true
	}
	var cands []int
	for i := 0; i < cfg.N; i++ {
		if !byz[i] {
			cands = append(cands, i)
		}
	}
	// one common timer base: the post-attack progress check (C12) relies on views meeting through exact doubling
	for i := range cfg.TimerBaseMs {
		cfg.TimerBaseMs[i] = cfg.TimerBaseMs[0]
	}
	cfg.Focus = cands[ch.Pick("focus-node", len(cands))]
	cfg.HasFocus = true
	// a focus node with a slow clock: the others time out first, so it is voted into views it has not reached by its
	// own timeout, and its own triggers arrive late (not for C12, whose recovery phase needs one common base)
	if prop != "C12" && ch.Pick("focus-slow-timer", 4) == 3 {
		cfg.TimerBaseMs[cfg.Focus] *= 4
	}
	cfg.FocusRealTimer = ch.Pick("focus-real-timer", 3) == 2
	cfg.SpiBlockPm = []int{0, 100, 300, 600}[ch.Pick("r-spiblock", 4)]
	cfg.ValidateFailPm = []int{0, 0, 50, 200}[ch.Pick("r-vfail2", 4)]
	cfg.CommitFailPm = []int{0, 0, 100, 300}[ch.Pick("r-cfail2", 4)]
	cfg.CommitteeFailPm = []int{0, 0, 100, 400}[ch.Pick("r-cmfail", 4)]
	cfg.LateResultPm = []int{0, 0, 200}[ch.Pick("r-late", 3)]
	cfg.ReleasePm = []int{50, 150, 400}[ch.Pick("r-release", 3)]
	cfg.ApiPm = []int{0, 20, 60, 150}[ch.Pick("r-api", 4)]
	cfg.HoldPm = []int{0, 0, 20, 60}[ch.Pick("r-hold", 4)]
	cfg.NoisePm = []int{0, 0, 30, 100}[ch.Pick("r-noise", 4)]
	cfg.BurstPm = []int{0, 0, 0, 20}[ch.Pick("r-burst", 4)]
	cfg.LogYieldPm = []int{0, 30, 100}[ch.Pick("r-logyield", 3)]
	cfg.YieldPm = []int{0, 30, 100}[ch.Pick("r-yield", 3)]
	// in some runs every correct node has a slow / failing consumer (blocking SPI calls), not only the focus node;
	// all workers then run under select control (H1)
	cfg.TimeoutBlockedPm = []int{0, 40, 150}[ch.Pick("r-timeout-blocked", 3)]
	cfg.AllGated = prop != "C16" && ch.Pick("all-gated", 4) == 3
	if cfg.AllGated {
		cfg.WorkerControl = true
	}
	cfg.CrashPm = 0 // the focus node is never crashed by the generic fault; cancellation is an explicit action
	if prop == "C16" {
		cfg.CancelAt = cancelAt
	} else if ch.Pick("cancel?", 6) == 5 {
		cfg.CancelAt = 1 + ch.Pick("cancel-at", cfg.MaxSteps/2)
	}
	return cfg
}

// gate policy of the focus node: one tape decision per SPI call
func (w *World) focusGatePolicy(n *Node) func(kind string, h uint64) GateVerdict {
	return func(kind string, h uint64) GateVerdict {
		cfg := w.cfg
		if w.recovering {
			return GatePass
		}
		x := w.ch.Pick("gate:"+kind, 1000)
		top := 1000
		band := func(pm int) bool {
			if pm <= 0 {
				return false
			}
			lo := top - pm
			hit := x >= lo && x < top
			top = lo
			return hit
		}
		failPm := 0
		switch kind {
		case "validate":
			failPm = cfg.ValidateFailPm
		case "commit":
			failPm = cfg.CommitFailPm
		case "committee":
			failPm = cfg.CommitteeFailPm
		}
		switch {
		case band(cfg.SpiBlockPm):
			return GateBlock
		case band(failPm):
			w.stats.Fault("spi-error-" + kind)
			if kind == "commit" {
				w.commitFailedN = n
			}
			return GateFail
		}
		return GatePass
	}
}

func RunRT(w *World) {
	w.setup()
	f := w.nodes[w.cfg.Focus]
	f.controlled = true
	f.useRealTimer = w.cfg.FocusRealTimer
	f.gatePolicy = w.focusGatePolicy(f)
	f.lateResultPm = w.cfg.LateResultPm
	f.simLogger = w.cfg.LogYieldPm > 0
	if w.cfg.YieldPm > 0 {
		w.enableYields()
	}
	if w.cfg.AllGated {
		for _, n := range w.honest() {
			if n != f {
				n.gatePolicy = w.focusGatePolicy(n)
			}
		}
	}
	for _, n := range w.honest() {
		w.startNode(n)
	}
	f.ctrl.policy = func(p verifhook.Pending) verifhook.Choice {
		kinds := pendingKinds(p)
		if len(kinds) == 1 {
			return kinds[0]
		}
		return kinds[w.ch.Pick("worker-choice", len(kinds))]
	}
	w.quiesce()
	for _, i := range w.ch.Perm("genesis-order", len(w.honest())) {
		w.genesis(w.honest()[i])
	}
	cfg := w.cfg
	lastFocusH := uint64(0)
	for w.step = 0; w.step < cfg.MaxSteps && w.viol == nil && !w.tainted; w.step++ {
		w.sampleState()
		w.checkQuiescentInvariants()
		if w.viol != nil {
			break
		}
		if cfg.CancelAt > 0 && w.step == cfg.CancelAt {
			w.cancelFocus(f)
			break
		}
		if !f.alive || w.netDone() {
			break
		}
		if hNow := f.height(); hNow != lastFocusH {
			moved := lastFocusH != 0 && hNow > lastFocusH
			lastFocusH = hNow
			if moved && hNow >= 3 && len(f.gates) == 0 && w.ch.Pick("tip-again-after-commit", 6) == 5 {
				// the consumer announces its old tip again right after the node moved on: the stale sync is the first
				// thing the main loop sees since the node changed height (nothing has refreshed its view of what is old)
				for _, p := range w.honest() {
					if sb, ok := p.store[hNow-2]; ok {
						w.probe("api-sync-two-behind-right-after-height-change")
						w.stats.Fault("sync-older")
						w.syncTo(f, sb, hNow-2, "api-sync")
						break
					}
				}
				continue
			}
		}
		w.directorStep()
		if w.rtStep(f) {
			continue
		}
		if !w.netStep() {
			break
		}
	}
	if w.viol == nil && !w.tainted && f.alive && w.checks("C12") {
		w.recoveryPhase(f)
	}
	w.finalChecks()
}

// rtStep performs one focus-node action if the tape selects one.
func (w *World) rtStep(f *Node) bool {
	cfg := w.cfg
	a := w.ch.Pick("rt-act", 1000)
	top := 1000
	band := func(pm int) bool {
		if pm <= 0 {
			return false
		}
		lo := top - pm
		hit := a >= lo && a < top
		top = lo
		return hit
	}
	switch {
	case band(cfg.ReleasePm):
		t := f
		if cfg.AllGated {
			var with []*Node
			for _, n := range w.honest() {
				if n.alive && len(n.gates) > 0 {
					with = append(with, n)
				}
			}
			if len(with) == 0 {
				return false
			}
			t = with[w.ch.Pick("gate-node", len(with))]
		}
		if len(t.gates) == 0 {
			return false
		}
		f := t
		g := f.gates[w.ch.Pick("which-gate", len(f.gates))]
		v := GatePass
		if g.kind != "propose" && g.kind != "newround" && w.ch.Pick("release-fail", 4) == 3 {
			v = GateFail
		}
		w.action("gate-release")
		w.ev("gate-release n%d %s h%d verdict=%d ctxdead=%v", f.idx, g.kind, g.height, v, g.ctx.Err() != nil)
		g.release <- v
		w.quiesce()
		return true
	case band(cfg.ApiPm):
		return w.apiStress(f)
	case band(cfg.HoldPm):
		if f.ctrl == nil {
			return false
		}
		f.ctrl.hold = !f.ctrl.hold
		w.action("hold-toggle")
		w.ev("worker-hold n%d = %v", f.idx, f.ctrl.hold)
		if f.ctrl.hold {
			w.stats.Fault("worker-held")
		}
		w.quiesce()
		return true
	case band(cfg.NoisePm):
		return w.noiseInto(f)
	case band(cfg.BurstPm):
		return w.burstInto(f)
	case band(cfg.YieldPm):
		return w.preemptStep(f)
	case band(cfg.TimeoutBlockedPm):
		// the election timeout of a node expires while its worker is inside a consumer call (legal: a slow consumer)
		var cands []*Node
		for _, n := range w.honest() {
			if !n.alive || (n != f && !cfg.AllGated) || n.trig == nil || n.trig.cur == nil || n.trig.cur.fired {
				continue
			}
			for _, g := range n.gates {
				if g.kind != "log" && g.kind != "yield" && g.height == n.trig.cur.h {
					cands = append(cands, n)
					break
				}
			}
		}
		if len(cands) == 0 {
			return false
		}
		n := cands[w.ch.Pick("timeout-blocked-node", len(cands))]
		w.action("timeout-while-spi-blocked")
		w.stats.Fault("timer-early")
		w.probe("timeout-while-spi-blocked")
		w.fireTimer(n, n.trig.cur, "timer-fire(early, consumer call in progress)")
		return true
	case band(cfg.LogYieldPm):
		if f.logYieldIn > 0 || !f.simLogger {
			return false
		}
		switch w.ch.Pick("log-yield-near", 3) {
		case 1:
			f.logYieldIn = 1 + w.ch.Pick("log-yield-in", 4)
		case 2:
			// a sink that is slow on big records: the next consensus-trace record (the per-view message dump) blocks
			f.logYieldIn = 1 << 30
			f.logYieldTrace = true
		default:
			f.logYieldIn = 1 + w.ch.Pick("log-yield-in", 40)
		}
		w.action("arm-log-yield")
		w.ev("arm log yield n%d in %d lines", f.idx, f.logYieldIn)
		return true
	}
	return false
}

// burstInto: more messages than the worker's queue holds while the worker cannot take them (blocked in an SPI call
// or held): the main loop must drop the excess without blocking.
func (w *World) burstInto(f *Node) bool {
	if f.ctrl == nil || (len(f.gates) == 0 && !f.ctrl.hold) || len(w.sent) == 0 || f.burstDone {
		return false
	}
	f.burstDone = true
	w.ys.arm = nil // no preemption in the middle of the burst: its oracle is "every call returns at once"
	w.forceReleaseMain(f)
	src := w.sent[len(w.sent)-1]
	w.action("burst")
	w.stats.Fault("overflow")
	w.ev("burst of 1100 messages into n%d while its worker is busy", f.idx)
	f.obs.delivered = append(f.obs.delivered, &DeliveredRec{seq: w.seq, step: w.step, raw: src.raw, msg: src.msg, origin: src.from, honest: true, sent: src, tag: "burst", epoch: f.epoch})
	lh, ctx := f.lh, f.ctx
	for i := 0; i < 1100 && w.viol == nil; i++ {
		done := make(chan struct{})
		go func() {
			w.guardAPI("HandleConsensusMessage", func() { lh.HandleConsensusMessage(ctx, src.raw) })
			close(done)
		}()
		simWait()
		select {
		case <-done:
		default:
			w.violate("C12", "handle-message-blocked", "HandleConsensusMessage did not return while the worker queue was full (message %d of a burst)", i)
			return true
		}
		if forwardedByMainLoop(src.raw) && len(f.inbox) < workerQueueCap {
			f.inbox = append(f.inbox, src.msg)
		}
	}
	w.probe("overflow-burst")
	return true
}

// apiStress: UpdateState with a block that is older than, equal to or newer than what the node decides.
func (w *World) apiStress(f *Node) bool {
	h := f.height()
	var cands []*StoredBlock
	var hs []uint64
	seen := map[uint64]bool{}
	for _, p := range w.honest() {
		for bh, sb := range p.store {
			if !seen[bh] {
				seen[bh] = true
				cands = append(cands, sb)
				hs = append(hs, bh)
			}
		}
	}
	if len(cands) == 0 {
		return false
	}
	// order candidates by height for a stable choice
	for i := range hs {
		for j := i + 1; j < len(hs); j++ {
			if hs[j] < hs[i] {
				hs[i], hs[j] = hs[j], hs[i]
				cands[i], cands[j] = cands[j], cands[i]
			}
		}
	}
	k := w.ch.Pick("api-which", len(cands))
	burst := 1 + w.ch.Pick("api-burst", 3)
	if w.ch.Pick("api-tip-again", 4) == 3 {
		// the consumer announces its tip again, late: by now the block is two heights behind what the node decides (a
		// stale sync that the main loop lets through if nothing else has passed through it since the last commit)
		for i := range hs {
			if hs[i]+2 == h {
				k, burst = i, 1
				w.probe("api-sync-two-behind")
			}
		}
	}
	if f.simLogger && f.logYieldIn <= 0 && len(f.gates) == 0 && w.ch.Pick("api-log-yield", 4) == 3 {
		// hold the worker at one of its next log lines, i.e. inside its handling of the first sync of the burst
		f.logYieldIn = 1 + w.ch.Pick("log-yield-in", 4)
		w.ev("arm log yield n%d in %d lines (sync burst)", f.idx, f.logYieldIn)
	}
	for b := 0; b < burst && w.viol == nil; b++ {
		idx := (k + b) % len(cands)
		cls := "older"
		if hs[idx]+1 == h {
			cls = "previous"
		} else if hs[idx] >= h {
			cls = "newer-or-equal"
		}
		w.stats.Fault("sync-" + cls)
		w.syncTo(f, cands[idx], hs[idx], "api-sync")
	}
	return true
}

func (w *World) noiseInto(f *Node) bool {
	var raw *interfaces.ConsensusRawMessage
	switch w.ch.Pick("noise-kind", 3) {
	case 0:
		n := w.ch.Pick("noise-len", 48)
		b := make([]byte, n)
		for i := range b {
			b[i] = byte(w.ch.Pick("byte", 256))
		}
		raw = &interfaces.ConsensusRawMessage{Content: b}
		if n == 0 && w.ch.Pick("noise-nil", 2) == 1 {
			raw = &interfaces.ConsensusRawMessage{Content: nil} // no content at all (not even an empty slice)
		}
		w.use("input.bytes-random")
	case 1:
		if len(w.sent) == 0 {
			return false
		}
		base := cp(w.sent[w.ch.Pick("noise-which", len(w.sent))].raw.Content)
		if len(base) == 0 {
			return false
		}
		if w.ch.Pick("noise-trunc", 2) == 1 {
			base = base[:w.ch.Pick("noise-cut", len(base))]
			w.use("input.bytes-truncate")
		} else {
			base[w.ch.Pick("noise-pos", len(base))] ^= byte(1 << uint(w.ch.Pick("noise-bit", 8)))
			w.use("input.bytes-bitflip")
		}
		raw = &interfaces.ConsensusRawMessage{Content: base}
	default:
		byz := w.byzMembersAt(f.height())
		if len(byz) == 0 {
			return false
		}
		before := len(w.flights)
		w.advExtreme(byz[0], f.height(), f.view())
		// deliver only the copy for the focus node at once
		var mine *Flight
		for _, fl := range w.flights[before:] {
			if fl.to == f.idx {
				mine = fl
			}
		}
		w.flights = w.flights[:before]
		if mine == nil {
			return false
		}
		raw = mine.raw
	}
	w.action("noise")
	w.stats.Fault("malformed-input")
	w.deliver(&Flight{from: -1, to: f.idx, raw: raw, tag: "noise"})
	return true
}

// ---------------------------------------------------------------------------------------------
// C16: cancellation of the focus node at this step.

func (w *World) cancelFocus(f *Node) {
	// a main loop parked in the middle of an iteration, with an election trigger or a sync in hand, goes on to a select
	// of the library (forward to the worker or observe cancellation): with the cancellation already there that select
	// has two ready cases and Go picks at random. Such a main loop comes to rest at its own select before cancellation
	// strikes. A main loop that is merely busy (parked with nothing in hand) stays busy: consumer threads deliver
	// (undecodable) messages meanwhile - calls in flight at the moment of cancellation - and every one of them must
	// return.
	var inflight chan int
	nInflight := 0
	if g := f.mainParked; g != nil && !g.midEvent && len(f.pendingSyncs) == 0 {
		nInflight = 1 + w.ch.Pick("inflight-calls", 3)
		inflight = make(chan int, nInflight)
		lh, ctx := f.lh, f.ctx
		for i := 0; i < nInflight; i++ {
			i := i
			go func() {
				w.guardAPI("HandleConsensusMessage", func() { lh.HandleConsensusMessage(ctx, &interfaces.ConsensusRawMessage{Content: []byte{9, 9, byte(i)}}) })
				inflight <- i
			}()
		}
		simWait()
		w.probe("cancel-with-api-calls-in-flight")
		w.ev("%d HandleConsensusMessage calls in flight (main loop busy)", nInflight)
	} else {
		w.forceReleaseMain(f)
	}
	w.action("cancel")
	w.stats.Fault("cancel")
	w.probe("nontrivial")
	w.ev("CANCEL n%d at step %d: gates=%d held=%v hv=%v", f.idx, w.step, len(f.gates), f.ctrl != nil && f.ctrl.hold, f.hv())
	if len(f.gates) > 0 {
		w.probe("cancel-while-spi-blocked")
	}
	if f.ctrl != nil && (f.ctrl.pendingNow().Messages > 0 || f.ctrl.pendingNow().Election || f.ctrl.pendingNow().Sync) {
		w.probe("cancel-with-pending-worker-events")
	}
	// the run ends with this cancellation: the other nodes are stopped first, so that the simulated time that passes
	// below belongs to the cancelled node alone (another node's real election timer expiring meanwhile would be an
	// event nobody models)
	for _, n := range w.honest() {
		if n != f && n.alive {
			w.stopNode(n)
		}
	}
	simWait()
	f.shuttingDown = true
	sends0, commits0, rounds0, regs0 := len(f.obs.sends), len(f.obs.commits), len(f.obs.newRounds), len(f.obs.registrations)
	done := make(chan struct{})
	lh := f.lh
	f.alive = false
	f.cancel()
	go func() {
		lh.WaitUntilShutdown(context.Background())
		close(done)
	}()
	// A consumer call that ignores its context (a slow log sink, a proposal that arrives late) keeps the goroutine
	// that made it alive: WaitUntilShutdown must not report completion while a goroutine the library started is
	// still inside such a call. (The worker under select control learns about the cancellation through the hook.)
	// what the worker still has in its hands when cancellation strikes (a queued election trigger, queued messages, a
	// sync) competes with the cancellation in its select: for a few rounds the tape decides which it takes, as before
	// the cancellation; after that it observes the cancellation as soon as it looks
	if f.ctrl != nil && f.ctrl.policy != nil {
		f.freeChoices = w.ch.Pick("shutdown-free-choices", 4)
	}
	for i := 0; i < 1000; i++ {
		simWait()
		if f.ctrl == nil || !w.shutdownWorkerStep(f) {
			break
		}
	}
	select {
	case <-done:
		for _, g := range f.gates {
			if g.kind == "yield" && g.role == "api" {
				continue // a consumer thread, not started by the library
			}
			w.violate("C16", "shutdown-reported-while-library-goroutine-alive", "WaitUntilShutdown of n%d returned while a goroutine started by the library is still inside a %s call of the consumer (h%d)", f.idx, g.kind, g.height)
			return
		}
	default:
		if len(f.gates) > 0 {
			w.probe("shutdown-waits-for-consumer-call")
		}
	}
	// SPI fakes honour their context; late-result gates are released by the consumer at shutdown.
	// A consumer that is slow to come back (a call that ignores its context, a slow logger): with the real election
	// timer, let the timer expire first - its goroutine then finds nobody reading the election channel - and only
	// then let the worker return and dispose of its term.
	if f.realTrig != nil && f.realTrig.armed && w.ch.Pick("cancel-slow-consumer", 2) == 1 {
		simWait()
		slow := false
		for _, g := range f.gates {
			if g.ignoresCtx {
				slow = true
			}
		}
		w.syncClock()
		if d := f.realTrig.expiry - w.now + time.Millisecond; slow && d > 0 && d < 24*time.Hour {
			w.stats.Fault("shutdown-slow-consumer")
			w.ev("slow consumer: %v pass before its calls return (the election timer expires meanwhile)", d)
			w.sleep(d)
			simWait()
			w.probe("timer-expired-during-shutdown")
		}
	}
	w.drainNode(f)
	simWait()
	select {
	case <-done:
	default:
		w.violate("C16", "wait-until-shutdown-blocked", "WaitUntilShutdown of n%d has not returned after cancellation although every SPI call was released (gates=%d)", f.idx, len(f.gates))
		return
	}
	if nInflight > 0 && len(inflight) != nInflight {
		w.violate("C16", "api-call-stranded-by-cancel", "%d of %d HandleConsensusMessage calls that were in flight when n%d was cancelled have not returned although WaitUntilShutdown has", nInflight-len(inflight), nInflight, f.idx)
		return
	}
	// drop what is in flight to it
	keep := w.flights[:0]
	for _, fl := range w.flights {
		if fl.to != f.idx {
			keep = append(keep, fl)
		}
	}
	w.flights = keep
	// what happens at shutdown itself (e.g. a commit callback released by cancellation) is judged now; afterwards nothing may move
	sends1, commits1, rounds1, regs1 := len(f.obs.sends), len(f.obs.commits), len(f.obs.newRounds), len(f.obs.registrations)
	_ = sends0
	_ = commits0
	_ = rounds0
	_ = regs0
	// API calls with the cancelled context return promptly
	ret := make(chan int, 2)
	ctx := f.ctx
	go func() {
		w.guardAPI("HandleConsensusMessage", func() { lh.HandleConsensusMessage(ctx, &interfaces.ConsensusRawMessage{Content: []byte{1, 2, 3}}) })
		ret <- 1
	}()
	go func() {
		w.guardAPI("UpdateState", func() { _ = lh.UpdateState(ctx, nil, nil) })
		ret <- 2
	}()
	simWait()
	if len(ret) != 2 {
		w.violate("C16", "api-blocks-after-cancel", "HandleConsensusMessage / UpdateState called with the cancelled context did not return (%d of 2 returned)", len(ret))
		return
	}
	// hours of fake time: the election timer must be stopped, nothing may fire
	w.sleep(72 * time.Hour)
	simWait()
	w.harnessClock()
	if f.trig != nil && f.trig.cur != nil && !f.trig.cur.stale {
		w.violate("C16", "timer-not-stopped", "the election scheduler of n%d is still armed for (h%d,v%d) after shutdown", f.idx, f.trig.cur.h, f.trig.cur.v)
		return
	}
	if f.realTrig != nil && f.realTrig.armed {
		w.violate("C16", "timer-not-stopped", "the election timer of n%d is still armed after shutdown", f.idx)
		return
	}
	if len(f.obs.sends) != sends1 || len(f.obs.commits) != commits1 || len(f.obs.newRounds) != rounds1 || len(f.obs.registrations) != regs1 {
		w.violate("C16", "activity-after-shutdown", "n%d: sends %d->%d commits %d->%d rounds %d->%d registrations %d->%d after WaitUntilShutdown returned", f.idx, sends1, len(f.obs.sends), commits1, len(f.obs.commits), rounds1, len(f.obs.newRounds), regs1, len(f.obs.registrations))
		return
	}
	w.probe("shutdown-checked")
}

func (c *workerCtrl) pendingNow() verifhook.Pending {
	if c.state == wsChoosing {
		return c.pending
	}
	return verifhook.Pending{}
}

// ---------------------------------------------------------------------------------------------
// C12: after the attack the node must still make progress. Faults stop, everything is released, messages are
// delivered in order, timers fire at their nominal time, the consumer syncs the node if it fell behind.

func (w *World) recoveryPhase(f *Node) {
	if w.stats.Faults["malformed-input"]+w.stats.Faults["byz.bytes"]+w.stats.Faults["byz.extreme-fields"]+w.stats.Faults["byz.mutate"] == 0 {
		return // nothing was attacked in this run
	}
	w.recovering = true
	w.ys.arm = nil
	w.ev("RECOVERY begins: n%d at %v", f.idx, f.hv())
	if f.ctrl != nil {
		f.ctrl.hold = false
		f.ctrl.policy = nil
	}
	w.hold = nil
	w.blocked = map[[2]int]bool{}
	for _, n := range w.honest() {
		w.releaseAllGatesWith(n, GatePass)
	}
	w.quiesce()
	for _, n := range w.honest() {
		if !n.alive {
			w.restart(n)
		}
	}
	for _, p := range w.honest() {
		if p.alive && p.view() > 12 {
			w.probe("recovery-abstained-view-cap")
			return
		}
	}
	// Settle: proposals in flight are lost (legal message loss), everything else is delivered; without new
	// proposals the traffic dies out at a height boundary. Then the consumers of all correct nodes sync them to
	// the newest committed block: everybody decides the same height, and because the view-0 proposal of that
	// height was lost the round is decided by a timeout-led view change followed by the three phases.
	for i := 0; i < 20000 && len(w.flights) > 0 && w.viol == nil; i++ {
		fl := w.flights[0]
		w.flights = w.flights[1:]
		m := Decode(fl.raw)
		if fl.tag != "" || m == nil || m.Kind == KPP || m.Kind == KNV || !w.nodes[fl.to].alive {
			continue
		}
		w.deliver(fl)
	}
	for _, n := range w.honest() {
		w.forceReleaseMain(n)
	}
	if len(w.flights) > 0 {
		w.probe("recovery-abstained-did-not-settle")
		return
	}
	var best *StoredBlock
	var bestH uint64
	for _, p := range w.honest() {
		if top, sb := p.lastStored(); sb != nil && top > bestH {
			best, bestH = sb, top
		}
	}
	if best != nil {
		for _, p := range w.honest() {
			if p.alive && p.height() <= bestH && w.viol == nil {
				w.syncTo(p, best, bestH, "recovery-sync")
			}
		}
	}
	// proposals produced by the syncs themselves are lost too
	keep := w.flights[:0]
	for _, fl := range w.flights {
		if m := Decode(fl.raw); m != nil && m.Kind != KPP {
			keep = append(keep, fl)
		}
	}
	w.flights = keep
	// premise: correct nodes of quorum weight are alive at the attacked node's height
	{
		h := f.height()
		ids := map[string]bool{}
		for _, p := range w.honest() {
			if p.alive && p.height() == h {
				ids[string(p.id)] = true
			}
		}
		_, _, q := thresholds(w.Committee(h))
		if w.weightOf(h, ids) < q {
			w.probe("recovery-abstained-no-quorum-at-height")
			return
		}
	}
	startCommits := len(f.obs.commits)
	startH := f.height()
	budget := 6000
	for i := 0; i < budget && w.viol == nil; i++ {
		w.step++
		if w.timeUp {
			return
		}
		if len(f.obs.commits) > startCommits && f.height() > startH {
			w.probe("recovered-and-committed")
			return
		}
		if !w.inCommittee(f.height(), f.id) {
			w.probe("recovery-abstained-out-of-committee")
			return
		}
		// a view beyond the cap means the timeouts are astronomically long; judged by C05 / C19, not here
		if f.view() > 30 {
			w.probe("recovery-abstained-view-cap")
			return
		}
		for _, n := range w.honest() {
			w.releaseAllGatesWith(n, GatePass)
		}
		evs := w.pendingEvents()
		if len(evs) == 0 {
			break
		}
		// the consumer syncs the node when it fell behind and nothing more is on its way to it
		toF := false
		for _, fl := range w.flights {
			if fl.to == f.idx {
				toF = true
			}
		}
		if !toF && w.syncBehind(f) {
			continue
		}
		e := &evs[0] // strict time order: message latencies are far below the election timeouts
		if e.timer != nil {
			if !e.real && !e.wake {
				w.advanceTo(e.at)
			}
			w.fireAny(e)
			continue
		}
		w.removeFlight(e.flight)
		if !w.nodes[e.flight.to].alive {
			continue
		}
		if m := Decode(e.flight.raw); m != nil && m.Kind == KPP && m.Ref.V == 0 {
			continue // view-0 proposals keep getting lost: every height is decided by a view change, at timeout pace
		}
		w.advanceTo(e.flight.at)
		w.deliver(e.flight)
	}
	if w.viol == nil && !(len(f.obs.commits) > startCommits) {
		// premise: a quorum of correct nodes is alive at the node's height
		w.violate("C12", "no-progress-after-attack", "n%d received malformed / extreme input and afterwards did not commit any block within %d fault-free steps (state %v, was h%d)", f.idx, budget, f.hv(), startH)
	}
}

func (w *World) releaseAllGatesWith(n *Node, v GateVerdict) {
	for _, g := range append([]*Gate(nil), n.gates...) {
		select {
		case g.release <- v:
			simWait()
		default:
		}
	}
	if len(n.gates) > 0 {
		w.quiesce()
	}
}

// syncBehind: if some correct peer stored a block at or above the node's height, hand it over.
func (w *World) syncBehind(f *Node) bool {
	h := f.height()
	var best *StoredBlock
	var bestH uint64
	for _, p := range w.honest() {
		if top, sb := p.lastStored(); sb != nil && top >= h && top > bestH {
			best, bestH = sb, top
		}
	}
	if best == nil || f.syncedTo[bestH] {
		return false
	}
	if f.syncedTo == nil {
		f.syncedTo = map[uint64]bool{}
	}
	f.syncedTo[bestH] = true
	return w.syncTo(f, best, bestH, "recovery-sync")
}

func (w *World) fireAny(e *pendingEvent) {
	n := e.timer
	if w.forceReleaseMain(n) {
		// a trigger is about to reach this node's main loop: it must be at its select, with nothing else pending. What
		// the released loops did may have re-armed the timer: the event at hand is stale, the next step looks again.
		return
	}
	if e.wake {
		w.action("wake")
		w.ev("wake n%d (timed wait inside the library)", n.idx)
		n.wakeAt = 0
		w.advanceTo(e.at)
		w.quiesce()
		return
	}
	if e.real {
		w.action("timer")
		w.onRealTimerDue(n)
		n.realTrig.seen = true // before the clock moves: the firing re-arms the timer for the next view
		w.stimNode = n
		w.advanceTo(e.at)
		w.quiesce()
		w.stimNode = nil
		return
	}
	w.action("timer")
	w.fireTimer(n, n.trig.cur, "timer-fire")
}

var _ = fmt.Sprint

// preemptStep: either arm a preemption of the focus node's worker at one of its next synchronisation points, or let a
// consumer thread read State().HeightView() while the loops run, possibly preempted inside that call.
func (w *World) preemptStep(f *Node) bool {
	if !w.ys.enabled || w.ys.arm != nil {
		return false
	}
	switch w.ch.Pick("preempt-kind", 4) {
	case 3:
		if f.mainParked != nil {
			return false
		}
		w.action("arm-yield-main")
		if w.ch.Pick("main-at-handoff", 3) == 2 {
			// in the middle of a hand-off to the worker: the first select the main loop reaches outside its own loop
			// select (the "free a slot, then send" sequences)
			w.armYield(f, "main", 1+w.ch.Pick("handoff-nth", 3), ":select")
			w.ys.arm.exclude = ":MainLoop.run:"
			return true
		}
		w.armYield(f, "main", 1+w.ch.Pick("yield-in", 4), "")
		return true
	case 0, 1:
		n := 1 + w.ch.Pick("yield-in", 6)
		if w.ch.Pick("yield-far", 3) == 2 {
			n = 1 + w.ch.Pick("yield-in-far", 80)
		}
		w.action("arm-yield")
		w.armYield(f, "worker", n, "")
		return true
	default:
		return w.apiSample(f)
	}
}

func (w *World) apiSample(f *Node) bool {
	if !f.alive || f.lh == nil {
		return false
	}
	w.action("api-sample")
	rec := &sampleRec{pre: f.hv(), epoch: f.epoch, step: w.step}
	f.samples = append(f.samples, rec)
	preempt := w.ch.Pick("sample-preempt", 3)
	if preempt > 0 {
		w.armYield(f, "api", preempt, "")
	}
	lh := f.lh
	w.ev("api-sample n%d starts at %v", f.idx, rec.pre)
	go func() {
		w.noteGoroutine(f, "api")
		x := lh.State().HeightView()
		rec.val = hv{uint64(x.Height()), uint64(x.View())}
		rec.done = true
		w.ev("api-sample n%d -> %v", f.idx, rec.val)
	}()
	w.quiesce()
	if a := w.ys.arm; a != nil && a.role == "api" {
		w.ys.arm = nil // the call had fewer synchronisation points than asked for
	}
	return true
}

// shutdownWorkerStep: one hand-shake with a cancelled node's worker: while free choices remain the tape decides what it
// takes from its hands (as before the cancellation), afterwards it observes the cancellation as soon as it looks.
func (w *World) shutdownWorkerStep(n *Node) bool {
	c := n.ctrl
	if c == nil {
		return false
	}
	if n.freeChoices > 0 && c.state == wsChoosing && !c.hold && c.policy != nil {
		n.freeChoices--
		w.probe("worker-choice-after-cancel")
		return c.autoStep()
	}
	return c.shutdownStep()
}

package lhsim

import (
	"bytes"
	"fmt"

	"github.com/orbs-network/lean-helix-go/services/interfaces"
	"github.com/orbs-network/lean-helix-go/spec/types/go/protocol"
)

type interfacesCommitteeMember = interfaces.CommitteeMember

// UNIT shape for C18: leader rotation judged by behaviour. A committee of 4..64 members, two of them real nodes, the
// others puppets whose keys the harness holds. For views from the boundary classes a PREPREPARE signed by a candidate
// member is delivered: the consumer's ValidateBlockProposal is reached iff the candidate is the member at position
// (view mod n); a VIEW_CHANGE for a view is stored by a real node iff that node is the member at (view mod n); and a
// real node driven through 4n consecutive timeouts addresses every VIEW_CHANGE to the member at (view mod n).
// The 64-bit range is input sampling carried by the simulator, not schedule search.

func genLeaderConfig(ch *Chooser, prop, tier string, disabled map[string]bool) *RunConfig {
	cfg := &RunConfig{Prop: prop, Shape: "UNIT-leader", Tier: tier, Disabled: disabled}
	maxN := 24
	if tier == "thorough" {
		maxN = 64
	}
	cfg.N = 4 + ch.Pick("n", maxN-4+1)
	cfg.Heights = 1
	cfg.Outsiders = []int{cfg.N, cfg.N + 1}
	perm := ch.Perm("order", cfg.N)
	var c []CM
	for _, idx := range perm {
		c = append(c, CM{idx, uint64(1 + ch.Pick("w", 3))})
	}
	cfg.Committees = map[uint64][]CM{1: c, 2: c}
	// two real nodes; everybody else is a puppet (marked Byzantine only in the sense "not a library instance")
	r0 := ch.Pick("real0", cfg.N)
	r1 := (r0 + 1 + ch.Pick("real1", cfg.N-1)) % cfg.N
	for i := 0; i < cfg.N; i++ {
		if i != r0 && i != r1 {
			cfg.Byz = append(cfg.Byz, i)
		}
	}
	cfg.MaxSteps = 40 + ch.Pick("trials", 80)
	cfg.MaxLatencyMs = 1
	cfg.Window = 1
	for i := 0; i < cfg.N; i++ {
		cfg.TimerBaseMs = append(cfg.TimerBaseMs, 1000)
	}
	return cfg
}

func (w *World) drawView(n uint64) uint64 {
	switch w.ch.Pick("view-class", 6) {
	case 0, 1:
		return uint64(w.ch.Pick("view-dense", int(4*n)+1))
	case 2:
		return uint64(1) << uint(w.ch.Pick("view-pow", 64))
	case 3:
		base := []uint64{1 << 31, 1 << 32, 1 << 63, ^uint64(0)}[w.ch.Pick("view-edge", 4)]
		d := uint64(w.ch.Pick("view-d", 9))
		if w.ch.Pick("view-sign", 2) == 0 || base == ^uint64(0) {
			return base - d
		}
		return base + d
	case 4:
		return ^uint64(0) - uint64(w.ch.Pick("view-top", int(2*n)+1))
	default:
		return (uint64(w.ch.Pick("view-hi", 1<<30)) << 34) | uint64(w.ch.Pick("view-lo", 1<<30))
	}
}

func RunLeaderUnit(w *World) {
	w.setup()
	var real []*Node
	for _, n := range w.honest() {
		w.startNode(n)
		real = append(real, n)
	}
	w.quiesce()
	for _, n := range real {
		w.genesis(n)
	}
	comm := w.Committee(1)
	n := uint64(len(comm))
	expect := func(v uint64) []byte { return comm[v%n].Id }
	ppTried := map[int]map[uint64]bool{}
	for w.step = 0; w.step < w.cfg.MaxSteps && w.viol == nil; w.step++ {
		r := real[w.ch.Pick("which-real", len(real))]
		if r.height() != 1 {
			break
		}
		V := w.drawView(n)
		if V < r.view() {
			continue // stale views are refused before any leader computation is observable
		}
		switch w.ch.Pick("trial", 4) {
		case 0, 1: // PREPREPARE from a candidate
			if ppTried[r.idx] == nil {
				ppTried[r.idx] = map[uint64]bool{}
			}
			if ppTried[r.idx][V] {
				continue
			}
			cand := w.keys.IdxOf(expect(V))
			if w.ch.Pick("pp-wrong", 2) == 1 {
				cand = w.keys.IdxOf(comm[w.ch.Pick("pp-cand", int(n))].Id)
			}
			if cand == r.idx || !w.nodes[cand].byz {
				continue // only puppets are signed for by the harness
			}
			ppTried[r.idx][V] = true
			blk := w.freshBlock(1, cand, false)
			raw := SignedRefMsg(w.signer(cand), KPP, protocol.LEAN_HELIX_PREPREPARE, w.instance, 1, V, blk.Hash(), nil, blk)
			before := len(r.obs.validations)
			w.action("pp-trial")
			w.stats.Fault("input.view-class")
			w.deliver(&Flight{from: cand, to: r.idx, raw: raw, tag: "unit"})
			reached := len(r.obs.validations) > before
			should := bytes.Equal(w.keys.ids[cand], expect(V))
			w.probe("leader-judged")
			if reached != should {
				w.violate("C18", "pp-leader-mismatch", "n=%d view=%d: PREPREPARE signed by %s (position %d) reached the consumer=%v, but the member at (view mod n)=%d is %s", n, V, string(w.keys.ids[cand]), posOf(comm, w.keys.ids[cand]), reached, V%n, string(expect(V)))
			}
		case 2: // VIEW_CHANGE addressed to the real node
			cand := w.keys.IdxOf(comm[w.ch.Pick("vc-cand", int(n))].Id)
			if cand == r.idx || !w.nodes[cand].byz {
				continue
			}
			// the vote may carry a prepared proof of an EARLIER view: validating it is one more place where the leader
			// of a view is computed - of a view below the node's current one
			pr := Proof{}
			var prBlk interfaces.Block
			if V > 0 && w.ch.Pick("vc-with-proof", 2) == 1 {
				var u uint64
				switch w.ch.Pick("proof-view", 4) {
				case 0:
					u = 0
				case 1:
					u = V - 1
				case 2:
					if cur := r.view(); cur > 0 {
						u = uint64(w.ch.Pick("proof-view-below-cur", int(minU(cur, 1<<20))))
					}
				default:
					u = uint64(w.ch.Pick("proof-view-low", int(minU(V, 4*n))))
				}
				signer := w.keys.IdxOf(expect(u))
				if w.ch.Pick("proof-wrong-leader", 3) == 2 {
					signer = w.keys.IdxOf(comm[w.ch.Pick("proof-signer", int(n))].Id)
				}
				if signer >= 0 && w.nodes[signer].byz && u < V {
					blk := w.freshBlock(1, signer, false)
					pr.Present = true
					pr.PP = Ref{Type: protocol.LEAN_HELIX_PREPREPARE, Instance: w.instance, H: 1, V: u, Hash: blk.Hash()}
					pr.PPSig = Sig{w.keys.ids[signer], w.signer(signer).Msg(1, refBuilder(protocol.LEAN_HELIX_PREPREPARE, w.instance, 1, u, blk.Hash()).Build().Raw())}
					pr.P = Ref{Type: protocol.LEAN_HELIX_PREPARE, Instance: w.instance, H: 1, V: u, Hash: blk.Hash()}
					pRaw := refBuilder(protocol.LEAN_HELIX_PREPARE, w.instance, 1, u, blk.Hash()).Build().Raw()
					for _, m := range comm {
						pi := w.keys.IdxOf(m.Id)
						if pi != signer && w.nodes[pi].byz {
							pr.PSigs = append(pr.PSigs, Sig{m.Id, w.signer(pi).Msg(1, pRaw)})
						}
					}
					prBlk = blk
					w.probe("vc-trial-with-proof")
				}
			}
			raw := VoteMsg(SignedVote(w.signer(cand), w.instance, 1, V, pr), prBlk)
			nStores := len(r.obs.stores)
			w.action("vc-trial")
			w.deliver(&Flight{from: cand, to: r.idx, raw: raw, tag: "unit"})
			stored := false
			dup := false
			for _, s := range r.obs.stores[nStores:] {
				if s.kind == "VC" && s.v == V {
					if s.ok {
						stored = true
					} else {
						dup = true
					}
				}
			}
			should := bytes.Equal(r.id, expect(V))
			whyNot := ""
			if pr.Present {
				// judged on what the wire decoders make of the message, as for every other reference predicate
				dec := Decode(raw)
				if dec == nil || dec.Vote == nil {
					continue
				}
				if ok, why := w.refProof(dec.Vote.Proof, 1, V); !ok {
					should = false
					whyNot = " (the vote carries a prepared proof of view " + fmt.Sprint(pr.PP.V) + " signed by " + string(pr.PPSig.Id) + " that does not count: " + why + ")"
				} else if should {
					w.probe("vc-trial-valid-proof-to-leader")
				}
			}
			w.probe("leader-judged")
			if (stored || dup) != should {
				w.violate("C18", "vc-leader-mismatch", "n=%d view=%d: VIEW_CHANGE delivered to %s (position %d) stored=%v, but the member at (view mod n)=%d is %s%s", n, V, string(r.id), posOf(comm, r.id), stored || dup, V%n, string(expect(V)), whyNot)
			}
		default: // a timeout: the vote goes to the member at ((view+1) mod n)
			if r.trig == nil || r.trig.cur == nil || r.trig.cur.fired {
				continue
			}
			v := r.view()
			nSends := len(r.obs.sends)
			nStores := len(r.obs.stores)
			w.action("timeout")
			w.advanceTo(r.trig.cur.at)
			w.fireTimer(r, r.trig.cur, "timer-fire")
			if r.view() != v+1 {
				continue
			}
			w.probe("leader-judged")
			w.probe("view-change")
			target := expect(v + 1)
			if bytes.Equal(target, r.id) {
				own := false
				for _, s := range r.obs.stores[nStores:] {
					if s.kind == "VC" && s.v == v+1 && s.sender.Equal(r.id) {
						own = true
					}
				}
				if !own || len(r.obs.sends) != nSends {
					for _, s := range r.obs.sends[nSends:] {
						if s.msg != nil && s.msg.Kind == KVC {
							w.violate("C18", "timeout-vote-destination", "n=%d: %s is the member at ((%d) mod n) but sent its vote for view %d away", n, string(r.id), v+1, v+1)
						}
					}
				}
				continue
			}
			ok := false
			for _, s := range r.obs.sends[nSends:] {
				if s.msg != nil && s.msg.Kind == KVC && s.msg.Vote.V == v+1 {
					if len(s.to) == 1 && s.to[0] == w.keys.IdxOf(target) {
						ok = true
					} else {
						w.violate("C18", "timeout-vote-destination", "n=%d: vote of %s for view %d went to %v, the member at (view mod n)=%d is %s", n, string(r.id), v+1, s.to, (v+1)%n, string(target))
					}
				}
			}
			if !ok && w.viol == nil {
				w.violate("C18", "timeout-vote-missing", "n=%d: %s timed out of view %d and sent no VIEW_CHANGE to %s", n, string(r.id), v, string(target))
			}
		}
	}
	w.probe("nontrivial")
}

func posOf(c []interfacesCommitteeMember, id []byte) int {
	for i, m := range c {
		if bytes.Equal(m.Id, id) {
			return i
		}
	}
	return -1
}

package lhsim

import (
	"bytes"
	"fmt"

	"github.com/orbs-network/lean-helix-go/services/interfaces"
	"github.com/orbs-network/lean-helix-go/spec/types/go/primitives"
	"github.com/orbs-network/lean-helix-go/spec/types/go/protocol"
)

// Decoded view of a wire message, built only with the generated readers (trusted as the wire definition).

type Kind int

const (
	KNone Kind = iota
	KPP
	KP
	KC
	KVC
	KNV
)

func (k Kind) String() string {
	return [...]string{"?", "PP", "P", "C", "VC", "NV"}[k]
}

func (k Kind) wireType() protocol.MessageType {
	switch k {
	case KPP:
		return protocol.LEAN_HELIX_PREPREPARE
	case KP:
		return protocol.LEAN_HELIX_PREPARE
	case KC:
		return protocol.LEAN_HELIX_COMMIT
	case KVC:
		return protocol.LEAN_HELIX_VIEW_CHANGE
	case KNV:
		return protocol.LEAN_HELIX_NEW_VIEW
	}
	return protocol.LEAN_HELIX_RESERVED
}

type Ref struct { // a BlockRef header
	Type     protocol.MessageType
	Instance uint64
	H, V     uint64
	Hash     []byte
	Raw      []byte
}

type Sig struct {
	Id  primitives.MemberId
	Sig []byte
}

type Proof struct { // prepared proof
	Present bool
	PP      Ref
	PPSig   Sig
	P       Ref
	PSigs   []Sig
	Raw     []byte
}

type Vote struct { // VIEW_CHANGE content (header + sender)
	Type      protocol.MessageType
	Instance  uint64
	H, V      uint64
	Proof     Proof
	HeaderRaw []byte
	Sender    Sig
	Raw       []byte
}

type Msg struct {
	Kind   Kind
	Ref    Ref  // PP / P / C header; for NV: the embedded PP header
	Sender Sig  // PP/P/C/VC/NV sender
	Share  []byte
	Vote   *Vote // VC
	// NV
	NVType     protocol.MessageType
	NVInstance uint64
	NVH, NVV   uint64
	NVHeader   []byte
	Votes      []*Vote
	PPSender   Sig // sender of embedded PP
	Block      *Block
	HasBlock   bool
	Content    []byte
}

func (m *Msg) Height() uint64 {
	switch m.Kind {
	case KVC:
		return m.Vote.H
	case KNV:
		return m.NVH
	}
	return m.Ref.H
}

func (m *Msg) View() uint64 {
	switch m.Kind {
	case KVC:
		return m.Vote.V
	case KNV:
		return m.NVV
	}
	return m.Ref.V
}

func (m *Msg) Instance() uint64 {
	switch m.Kind {
	case KVC:
		return m.Vote.Instance
	case KNV:
		return m.NVInstance
	}
	return m.Ref.Instance
}

func (m *Msg) HeaderType() protocol.MessageType {
	switch m.Kind {
	case KVC:
		return m.Vote.Type
	case KNV:
		return m.NVType
	}
	return m.Ref.Type
}

func (m *Msg) Short() string {
	if m == nil {
		return "<undecodable>"
	}
	s := fmt.Sprintf("%s h%d v%d from %s", m.Kind, m.Height(), m.View(), string(m.Sender.Id))
	switch m.Kind {
	case KPP, KP, KC:
		s += fmt.Sprintf(" hash %x", m.Ref.Hash)
	case KVC:
		if m.Vote.Proof.Present {
			s += fmt.Sprintf(" proof(v%d %x)", m.Vote.Proof.PP.V, m.Vote.Proof.PP.Hash)
		}
	case KNV:
		s += fmt.Sprintf(" pp-hash %x votes[", m.Ref.Hash)
		for i, v := range m.Votes {
			if i > 0 {
				s += ","
			}
			s += string(v.Sender.Id)
			if v.Proof.Present {
				s += fmt.Sprintf("(p v%d %x)", v.Proof.PP.V, v.Proof.PP.Hash)
			}
		}
		s += "]"
	}
	if m.HasBlock {
		s += " blk " + m.Block.String()
	}
	return s
}

func cp(b []byte) []byte { return append([]byte(nil), b...) }

func decRef(r *protocol.BlockRef) Ref {
	return Ref{Type: r.MessageType(), Instance: uint64(r.InstanceId()), H: uint64(r.BlockHeight()), V: uint64(r.View()), Hash: cp(r.BlockHash()), Raw: cp(r.Raw())}
}

func decSig(s *protocol.SenderSignature) Sig {
	return Sig{Id: cp(s.MemberId()), Sig: cp(s.Signature())}
}

func decProof(p *protocol.PreparedProof) Proof {
	if p == nil || len(p.Raw()) == 0 {
		return Proof{}
	}
	out := Proof{Present: true, Raw: cp(p.Raw())}
	out.PP = decRef(p.PreprepareBlockRef())
	out.PPSig = decSig(p.PreprepareSender())
	out.P = decRef(p.PrepareBlockRef())
	it := p.PrepareSendersIterator()
	for n := 0; it.HasNext() && n < 4096; n++ {
		out.PSigs = append(out.PSigs, decSig(it.NextPrepareSenders()))
	}
	return out
}

func decVote(c *protocol.ViewChangeMessageContent) *Vote {
	h := c.SignedHeader()
	return &Vote{Type: h.MessageType(), Instance: uint64(h.InstanceId()), H: uint64(h.BlockHeight()), V: uint64(h.View()),
		Proof: decProof(h.PreparedProof()), HeaderRaw: cp(h.Raw()), Sender: decSig(c.Sender()), Raw: cp(c.Raw())}
}

// Decode never panics; it returns nil for bytes the generated readers cannot make sense of.
func Decode(raw *interfaces.ConsensusRawMessage) (m *Msg) {
	defer func() {
		if r := recover(); r != nil {
			m = nil
		}
	}()
	if raw == nil {
		return nil
	}
	c := protocol.LeanhelixContentReader(raw.Content)
	m = &Msg{Content: raw.Content}
	if raw.Block != nil {
		m.HasBlock = true
		m.Block = asBlock(raw.Block)
	}
	switch {
	case c.IsMessagePreprepareMessage():
		m.Kind = KPP
		x := c.PreprepareMessage()
		m.Ref = decRef(x.SignedHeader())
		m.Sender = decSig(x.Sender())
	case c.IsMessagePrepareMessage():
		m.Kind = KP
		x := c.PrepareMessage()
		m.Ref = decRef(x.SignedHeader())
		m.Sender = decSig(x.Sender())
	case c.IsMessageCommitMessage():
		m.Kind = KC
		x := c.CommitMessage()
		m.Ref = decRef(x.SignedHeader())
		m.Sender = decSig(x.Sender())
		m.Share = cp(x.Share())
	case c.IsMessageViewChangeMessage():
		m.Kind = KVC
		x := c.ViewChangeMessage()
		m.Vote = decVote(x)
		m.Sender = m.Vote.Sender
	case c.IsMessageNewViewMessage():
		m.Kind = KNV
		x := c.NewViewMessage()
		h := x.SignedHeader()
		m.NVType = h.MessageType()
		m.NVInstance = uint64(h.InstanceId())
		m.NVH = uint64(h.BlockHeight())
		m.NVV = uint64(h.View())
		m.NVHeader = cp(h.Raw())
		m.Sender = decSig(x.Sender())
		it := h.ViewChangeConfirmationsIterator()
		for n := 0; it.HasNext() && n < 4096; n++ {
			m.Votes = append(m.Votes, decVote(it.NextViewChangeConfirmations()))
		}
		pp := x.Message()
		m.Ref = decRef(pp.SignedHeader())
		m.PPSender = decSig(pp.Sender())
	default:
		return nil
	}
	return m
}

// ---------------------------------------------------------------------------------------------
// Builders used by the adversary and by puppets. A signer signs only for the identity it is bound to.

type Signer struct {
	w   *World
	idx int
}

func (s Signer) Id() primitives.MemberId { return s.w.keys.ids[s.idx] }
func (s Signer) Msg(height uint64, content []byte) []byte {
	return s.w.keys.SignMsg(s.idx, height, content)
}
func (s Signer) Seed(height uint64, content []byte) []byte {
	return s.w.keys.SignSeed(s.idx, height, content)
}

func refBuilder(t protocol.MessageType, inst, h, v uint64, hash []byte) *protocol.BlockRefBuilder {
	return &protocol.BlockRefBuilder{MessageType: t, InstanceId: primitives.InstanceId(inst), BlockHeight: primitives.BlockHeight(h), View: primitives.View(v), BlockHash: hash}
}

func sigBuilder(s Sig) *protocol.SenderSignatureBuilder {
	return &protocol.SenderSignatureBuilder{MemberId: s.Id, Signature: s.Sig}
}

func wrapContent(k Kind, b interface{}) []byte {
	c := &protocol.LeanhelixContentBuilder{}
	switch k {
	case KPP:
		c.Message = protocol.LEANHELIX_CONTENT_MESSAGE_PREPREPARE_MESSAGE
		c.PreprepareMessage = b.(*protocol.PreprepareContentBuilder)
	case KP:
		c.Message = protocol.LEANHELIX_CONTENT_MESSAGE_PREPARE_MESSAGE
		c.PrepareMessage = b.(*protocol.PrepareContentBuilder)
	case KC:
		c.Message = protocol.LEANHELIX_CONTENT_MESSAGE_COMMIT_MESSAGE
		c.CommitMessage = b.(*protocol.CommitContentBuilder)
	case KVC:
		c.Message = protocol.LEANHELIX_CONTENT_MESSAGE_VIEW_CHANGE_MESSAGE
		c.ViewChangeMessage = b.(*protocol.ViewChangeMessageContentBuilder)
	case KNV:
		c.Message = protocol.LEANHELIX_CONTENT_MESSAGE_NEW_VIEW_MESSAGE
		c.NewViewMessage = b.(*protocol.NewViewMessageContentBuilder)
	}
	return c.Build().Raw()
}

// RefMsg builds a PP / P / C shaped message with explicit header fields and sender signature.
func BuildRefMsg(container Kind, hdr *protocol.BlockRefBuilder, sender Sig, share []byte, blk interfaces.Block) *interfaces.ConsensusRawMessage {
	var content []byte
	switch container {
	case KPP:
		content = wrapContent(KPP, &protocol.PreprepareContentBuilder{SignedHeader: hdr, Sender: sigBuilder(sender)})
	case KP:
		content = wrapContent(KP, &protocol.PrepareContentBuilder{SignedHeader: hdr, Sender: sigBuilder(sender)})
	case KC:
		content = wrapContent(KC, &protocol.CommitContentBuilder{SignedHeader: hdr, Sender: sigBuilder(sender), Share: share})
	default:
		panic("BuildRefMsg: bad container")
	}
	return &interfaces.ConsensusRawMessage{Content: content, Block: blk}
}

// SignedRefMsg: header built from fields and signed by s.
func SignedRefMsg(s Signer, container Kind, hdrType protocol.MessageType, inst, h, v uint64, hash []byte, share []byte, blk interfaces.Block) *interfaces.ConsensusRawMessage {
	hdr := refBuilder(hdrType, inst, h, v, hash)
	sig := s.Msg(h, hdr.Build().Raw())
	return BuildRefMsg(container, hdr, Sig{s.Id(), sig}, share, blk)
}

func proofBuilder(p Proof) *protocol.PreparedProofBuilder {
	if !p.Present {
		return nil
	}
	b := &protocol.PreparedProofBuilder{
		PreprepareBlockRef: refBuilder(p.PP.Type, p.PP.Instance, p.PP.H, p.PP.V, p.PP.Hash),
		PrepareBlockRef:    refBuilder(p.P.Type, p.P.Instance, p.P.H, p.P.V, p.P.Hash),
	}
	if len(p.PPSig.Id) > 0 || len(p.PPSig.Sig) > 0 {
		b.PreprepareSender = sigBuilder(p.PPSig) // absent altogether when there is no signer (an "unsigned proof")
	}
	for _, s := range p.PSigs {
		b.PrepareSenders = append(b.PrepareSenders, sigBuilder(s))
	}
	return b
}

func voteHeaderBuilder(t protocol.MessageType, inst, h, v uint64, p Proof) *protocol.ViewChangeHeaderBuilder {
	return &protocol.ViewChangeHeaderBuilder{MessageType: t, InstanceId: primitives.InstanceId(inst), BlockHeight: primitives.BlockHeight(h), View: primitives.View(v), PreparedProof: proofBuilder(p)}
}

// SignedVote builds a VIEW_CHANGE content signed by s.
func SignedVote(s Signer, inst, h, v uint64, p Proof) *protocol.ViewChangeMessageContentBuilder {
	hdr := voteHeaderBuilder(protocol.LEAN_HELIX_VIEW_CHANGE, inst, h, v, p)
	sig := s.Msg(h, hdr.Build().Raw())
	return &protocol.ViewChangeMessageContentBuilder{SignedHeader: hdr, Sender: sigBuilder(Sig{s.Id(), sig})}
}

// UnsignedVote: a vote attributed to id with an arbitrary signature.
func ForgedVote(id primitives.MemberId, sig []byte, inst, h, v uint64, p Proof) *protocol.ViewChangeMessageContentBuilder {
	hdr := voteHeaderBuilder(protocol.LEAN_HELIX_VIEW_CHANGE, inst, h, v, p)
	return &protocol.ViewChangeMessageContentBuilder{SignedHeader: hdr, Sender: sigBuilder(Sig{id, sig})}
}

func RawVote(raw []byte) *protocol.ViewChangeMessageContentBuilder {
	return protocol.ViewChangeMessageContentBuilderFromRaw(raw)
}

func VoteMsg(v *protocol.ViewChangeMessageContentBuilder, blk interfaces.Block) *interfaces.ConsensusRawMessage {
	return &interfaces.ConsensusRawMessage{Content: wrapContent(KVC, v), Block: blk}
}

// NewViewMsg: NEW_VIEW signed by s with the given votes and embedded PP header (signed by ppSigner).
func NewViewMsg(s Signer, inst, h, v uint64, votes []*protocol.ViewChangeMessageContentBuilder, ppHdr *protocol.BlockRefBuilder, ppSender Sig, blk interfaces.Block) *interfaces.ConsensusRawMessage {
	hdr := &protocol.NewViewHeaderBuilder{MessageType: protocol.LEAN_HELIX_NEW_VIEW, InstanceId: primitives.InstanceId(inst), BlockHeight: primitives.BlockHeight(h), View: primitives.View(v), ViewChangeConfirmations: votes}
	sig := s.Msg(h, hdr.Build().Raw())
	nv := &protocol.NewViewMessageContentBuilder{SignedHeader: hdr, Sender: sigBuilder(Sig{s.Id(), sig}),
		Message: &protocol.PreprepareContentBuilder{SignedHeader: ppHdr, Sender: sigBuilder(ppSender)}}
	return &interfaces.ConsensusRawMessage{Content: wrapContent(KNV, nv), Block: blk}
}

func sameBytes(a, b []byte) bool { return bytes.Equal(a, b) }
